#!/bin/sh
# ./run.sh <Cxx> <quick|thorough>     run one check (rebuilds the engine against /repo's working tree)
# ./run.sh replay <file>              re-evaluate one stored case
# Exit: 0 held / 1 VIOLATION / 2 could not decide (build failure, harness or generator-health error)
set -u
ROOT="$(cd "$(dirname "$0")" && pwd)"
export GTV_ROOT="$ROOT"
export CARGO_NET_OFFLINE=true
export RUST_BACKTRACE=0
unset RUSTFLAGS 2>/dev/null || true
cd "$ROOT/engine" || exit 2
[ -f Cargo.lock ] || cp /repo/Cargo.lock Cargo.lock
if ! cargo build --release --offline -q -p gtv 2>"$ROOT/work-build.log.tmp"; then
  cat "$ROOT/work-build.log.tmp" >&2
  echo "engine build failed (exit 2: no verdict)" >&2
  exit 2
fi
rm -f "$ROOT/work-build.log.tmp"
GTV="$ROOT/engine/target/release/gtv"
cd "$ROOT" || exit 2
case "${1:-}" in
  replay) exec "$GTV" replay "$2" ;;
  C*) exec "$GTV" check "$1" --tier "${2:-${VERIF_TIER:-quick}}" ;;
  *) echo "usage: $0 <Cxx> <quick|thorough> | replay <file>" >&2; exit 2 ;;
esac

//! Varied rendering of an abstract grammar to `.y` text (layout, comments, quoting style,
//! declaration order, split rules, yacc kinds) with a layout map of byte positions.

use super::choices::Choices;
use super::grammar::{AG, AgProd, Assoc, Sym};
use serde::{Deserialize, Serialize};

#[derive(Serialize, Deserialize, Clone, Copy, Debug, PartialEq, Eq)]
pub enum YKind {
    Generic,
    NoAction,
    UserAction,
    Grmtools,
    Eco,
}

#[derive(Serialize, Deserialize, Clone, Debug, Default, PartialEq)]
pub struct ProdLay {
    /// AG (rule, production index in the rule)
    pub rule: usize,
    pub prod: usize,
    /// start of the first symbol / `%empty` / (zero-length position for an empty production)
    pub start: usize,
    /// end of the last symbol, `%prec` token or `%empty`
    pub end: usize,
    pub empty_no_marker: bool,
    /// (position of `{`, position of `}`)
    pub action: Option<(usize, usize)>,
}

#[derive(Serialize, Deserialize, Clone, Debug, Default, PartialEq)]
pub struct YLayout {
    /// first definition of each AG rule: byte range of its name
    pub rule_name: Vec<Option<(usize, usize)>>,
    /// first token-introducing spelling of each AG token, without quotes
    pub token_first: Vec<Option<(usize, usize)>>,
    /// productions in text order
    pub prods: Vec<ProdLay>,
    /// order of first definition of the rules (AG indices)
    pub rule_order: Vec<usize>,
    pub features: Vec<String>,
    /// text of the programs section (after a third `%%`), as programs() must report it
    #[serde(default)]
    pub programs: Option<String>,
}

pub const PROGRAMS: &[&str] = &[
    "fn helper() -> u8 { 0 }\n",
    "use std::collections::HashMap; // é 漢 %% { } ' \"\nfn f<'a>(x: &'a str) -> &'a str { x }\n\n",
    "",
    "%% not a separator any more\n",
    "x",
];

pub const RULE_NAMES: &[&str] = &["Expr", "term_2", "A", "_x", "R9z", "Stmt", "b", "Zed"];
pub const TOKEN_NAMES_QUOTED: &[&str] =
    &["+", "é", "a b", "漢", "x\"y", "it's", "//", "/*", "%", "{", "|", ";", ":", "->", "*/", "}", "'", "\"", "'q", "\"z"];
pub const TOKEN_NAMES_IDENT: &[&str] = &["INT", "t0", "_id", "While", "x9", "ID"];

/// Replace the generator's plain names by varied ones and add optional declarations.
pub fn decorate(ch: &mut Choices, ag: &mut AG, kind: YKind) {
    let nr = ag.rules.len();
    let mut used: Vec<String> = vec![];
    for i in 0..nr {
        let mut n = RULE_NAMES[ch.pick(RULE_NAMES.len())].to_string();
        if used.contains(&n) {
            n = format!("{n}{i}");
        }
        used.push(n.clone());
        ag.rules[i].name = n;
    }
    let mut tused: Vec<String> = vec![];
    for t in 0..ag.tokens.len() {
        let mut n = if ch.chance(1, 2) {
            TOKEN_NAMES_QUOTED[ch.pick(TOKEN_NAMES_QUOTED.len())].to_string()
        } else {
            TOKEN_NAMES_IDENT[ch.pick(TOKEN_NAMES_IDENT.len())].to_string()
        };
        if tused.contains(&n) || used.contains(&n) {
            n = format!("{n}{t}");
        }
        tused.push(n.clone());
        ag.tokens[t] = n;
    }
    let nt = ag.tokens.len();
    // 1/6: a token spelled like a rule (keyword style: `while: "while" ...`). Legal as long as the
    // token is always written quoted and never declared with %token (a bare name is a token only
    // if %token declares it); the renderer takes care of both.
    if ch.chance(1, 6) {
        let used_t: Vec<usize> = (0..nt).filter(|t| ag.rules.iter().any(|r| r.prods.iter().any(|p| p.syms.contains(&Sym::T(*t))))).collect();
        let refd_r: Vec<usize> = (0..nr).filter(|x| ag.rules.iter().any(|r| r.prods.iter().any(|p| p.syms.contains(&Sym::R(*x))))).collect();
        if !used_t.is_empty() && !refd_r.is_empty() {
            let t = used_t[ch.pick(used_t.len())];
            let r = refd_r[ch.pick(refd_r.len())];
            if !ag.tokens.contains(&ag.rules[r].name) {
                ag.tokens[t] = ag.rules[r].name.clone();
            }
        }
    }
    // %epp
    if ch.chance(1, 3) {
        for t in 0..nt {
            if ch.chance(1, 3) {
                let v = ch.choose(&["plus", "an \"id\"", "it's", "é 漢", "{x}", ""]).to_string();
                ag.epp.push((t, v));
            }
        }
    }
    if ch.chance(1, 3) {
        let k = ch.range(1, 2.min(nt));
        let mut v = vec![];
        for _ in 0..k {
            let t = ch.pick(nt);
            if !v.contains(&t) {
                v.push(t);
            }
        }
        ag.avoid_insert = v;
    }
    if ch.chance(1, 4) {
        ag.expect = Some(ch.pick(4));
    }
    if ch.chance(1, 5) {
        ag.expect_rr = Some(ch.pick(3));
    }
    if kind == YKind::Eco && ch.chance(2, 3) {
        let k = ch.range(1, 3.min(nt));
        let mut v = vec![];
        for _ in 0..k {
            let t = ch.pick(nt);
            if !v.contains(&t) {
                v.push(t);
            }
        }
        ag.implicit_tokens = v;
    }
    // actions / action types
    let acts = ["$1", "vec![]", "{ let x = 1; x }", "é + 漢", "f(a,\n   b)", "Ok(())", "a::b()", ""];
    match kind {
        YKind::UserAction | YKind::Grmtools => {
            for r in 0..nr {
                if kind == YKind::Grmtools {
                    ag.rules[r].actiontype = Some(ch.choose(&["()", "Vec<u8>", "Result<a::B, ()>", "é"]).to_string());
                }
                for p in 0..ag.rules[r].prods.len() {
                    if ch.chance(2, 3) {
                        ag.rules[r].prods[p].action = Some(ch.choose(&acts).to_string());
                    }
                }
            }
        }
        _ => {
            for r in 0..nr {
                for p in 0..ag.rules[r].prods.len() {
                    if ch.chance(1, 6) {
                        ag.rules[r].prods[p].action = Some(ch.choose(&acts).to_string());
                    }
                }
            }
        }
    }
}

struct W<'a, 'b> {
    s: String,
    ch: &'a mut Choices<'b>,
    feats: Vec<String>,
    crlf: bool,
    /// lines end in a carriage return alone (the parser ends lines at `\n` or `\r`)
    lone_cr: bool,
    comments: bool,
}

impl W<'_, '_> {
    fn feat(&mut self, f: &str) {
        if !self.feats.iter().any(|x| x == f) {
            self.feats.push(f.to_string());
        }
    }
    fn nl(&mut self) {
        if self.lone_cr {
            self.s.push('\r');
        } else if self.crlf {
            self.s.push_str("\r\n");
        } else {
            self.s.push('\n');
        }
    }
    /// white space that must stay on the line (spaces, tabs, one-line block comments)
    fn inline_ws(&mut self, at_least_one: bool) {
        let n = self.ch.weighted(&[6, 2, 1, 1]);
        if n == 0 && at_least_one {
            self.s.push(' ');
            return;
        }
        for _ in 0..n {
            match self.ch.weighted(&[6, 2, if self.comments { 2 } else { 0 }]) {
                0 => self.s.push(' '),
                1 => self.s.push('\t'),
                _ => {
                    // (bodies beginning or ending with a slash or a star: "/*/ .. /*/", "/** .. **/")
                    let body = *self.ch.choose(&["", " c ", "*", "é", " a/b ", "* *", "//", "/", "/ x /", "/ 'y' /", "/*", "* x *"]);
                    self.s.push_str(&format!("/*{body}*/"));
                    self.feat("inline-block-comment");
                }
            }
        }
        if at_least_one && n > 0 {
            // a comment alone does not separate two identifiers visually but does for the parser;
            // keep a real space for safety of bare names
            self.s.push(' ');
        }
    }
    /// any white space, newlines and comments of both kinds
    fn any_ws(&mut self, at_least_one: bool) {
        let n = self.ch.weighted(&[5, 3, 1, 1]);
        if n == 0 {
            if at_least_one {
                self.s.push(' ');
            }
            return;
        }
        for _ in 0..n {
            match self.ch.weighted(&[5, 1, 3, if self.comments { 2 } else { 0 }, if self.comments { 2 } else { 0 }]) {
                0 => self.s.push(' '),
                1 => self.s.push('\t'),
                2 => self.nl(),
                3 => {
                    let body = *self.ch.choose(&[" line", "", "é漢", " ' \" {", " /* not closed", " %%"]);
                    self.s.push_str("//");
                    self.s.push_str(body);
                    self.nl();
                    self.feat("line-comment");
                }
                _ => {
                    let body = *self.ch.choose(&[" c ", "", "*", " a\n b ", " x\n// y\n", " é\n/ z ", "**", " ; | : ", "/", "/ A: 'x' ; /", "/ %token Q /", "/\n/"]);
                    if body.contains("\n/") {
                        self.feat("block-comment-line-starting-with-slash");
                    }
                    if body.contains('\n') {
                        self.feat("multi-line-block-comment");
                    }
                    self.s.push_str(&format!("/*{body}*/"));
                }
            }
        }
        if at_least_one {
            self.s.push(' ');
        }
    }
}

fn is_ident(n: &str) -> bool {
    let mut cs = n.chars();
    match cs.next() {
        Some(c) if c.is_ascii_alphabetic() || c == '_' => {}
        _ => return false,
    }
    cs.all(|c| c.is_ascii_alphanumeric() || c == '_')
}

/// Render. `%token`-declared identifier tokens may be spelled bare. Returns text and layout.
pub fn render_varied(ch: &mut Choices, ag: &AG, kind: YKind) -> (String, YLayout) {
    let nt = ag.tokens.len();
    let nr = ag.rules.len();
    let mut lay = YLayout {
        rule_name: vec![None; nr],
        token_first: vec![None; nt],
        ..YLayout::default()
    };
    let line_end = ch.weighted(&[9, 2, 1]);
    let (crlf, lone_cr) = (line_end == 1, line_end == 2);
    let comments = ch.chance(2, 3);
    let mut w = W {
        s: String::new(),
        ch,
        feats: vec![],
        crlf,
        lone_cr,
        comments,
    };
    if crlf {
        w.feat("crlf");
    }
    if lone_cr {
        w.feat("lone-cr-line-ends");
    }
    // which tokens are declared with %token (identifier tokens declared => bare spelling allowed)
    let rule_names: Vec<&str> = ag.rules.iter().map(|r| r.name.as_str()).collect();
    let mut used_in_prods = vec![false; nt];
    for r in &ag.rules {
        for p in &r.prods {
            for s in &p.syms {
                if let Sym::T(t) = s {
                    used_in_prods[*t] = true;
                }
            }
            if let Some(t) = p.prec {
                used_in_prods[t] = true; // %prec introduces the token too
            }
        }
    }
    let mut declared = vec![false; nt];
    for t in 0..nt {
        let must = !used_in_prods[t] && !ag.avoid_insert.contains(&t) && !ag.implicit_tokens.contains(&t);
        declared[t] = must || ag.declare_all || w.ch.chance(1, 3);
        if rule_names.contains(&ag.tokens[t].as_str()) && !must {
            // a token spelled like a rule must stay undeclared, or bare uses of the name would
            // stop being rule references
            declared[t] = false;
            w.feat("token-spelled-like-a-rule");
        }
    }
    let bare_ok: Vec<bool> = (0..nt)
        .map(|t| declared[t] && is_ident(&ag.tokens[t]) && !rule_names.contains(&ag.tokens[t].as_str()))
        .collect();

    // spelling of a token occurrence; returns (start,end) of the name without quotes
    fn spell(w: &mut W, name: &str, bare_ok: bool, allow_bare: bool) -> (usize, usize) {
        // a quoted name ends at the first delimiter after its first character, so a name may
        // begin with its own delimiter (`'''` is the token `'`, `''q'` the token `'q`) but not
        // contain it later
        let rest = &name[name.chars().next().map_or(0, |c| c.len_utf8())..];
        let has_s = rest.contains('\'');
        let has_d = rest.contains('"');
        let style = if allow_bare && bare_ok && w.ch.chance(1, 2) {
            2
        } else if has_s {
            1
        } else if has_d {
            0
        } else {
            w.ch.pick(2)
        };
        if style != 2 && (name.starts_with('\'') && style == 0 || name.starts_with('"') && style == 1) {
            w.feat("token-name-begins-with-its-delimiter");
        }
        match style {
            2 => {
                let st = w.s.len();
                w.s.push_str(name);
                w.feat("bare-token");
                (st, w.s.len())
            }
            1 => {
                w.s.push('"');
                let st = w.s.len();
                w.s.push_str(name);
                let en = w.s.len();
                w.s.push('"');
                w.feat("double-quoted-token");
                (st, en)
            }
            _ => {
                w.s.push('\'');
                let st = w.s.len();
                w.s.push_str(name);
                let en = w.s.len();
                w.s.push('\'');
                (st, en)
            }
        }
    }

    // ---- optional %grmtools header is added by the caller when needed (from_str entry point)
    // ---- declarations: build items then emit in random order (precedence lines keep order)
    #[derive(Clone)]
    enum Item {
        Start,
        Token(Vec<usize>),
        Prec(usize),
        Epp(usize),
        Avoid,
        Expect,
        ExpectRr,
        ParseParam,
        ParseGenerics,
        ExpectUnused,
        ActionType,
        Implicit,
    }
    let mut items: Vec<Item> = vec![];
    let explicit_start = ag.start != 0 || w.ch.chance(1, 2);
    if explicit_start {
        items.push(Item::Start);
    }
    let decl: Vec<usize> = (0..nt).filter(|t| declared[*t]).collect();
    if !decl.is_empty() {
        // one or several %token lines
        let split = w.ch.pick(decl.len() + 1);
        if split > 0 && split < decl.len() {
            items.push(Item::Token(decl[..split].to_vec()));
            items.push(Item::Token(decl[split..].to_vec()));
            w.feat("several-token-lines");
        } else {
            items.push(Item::Token(decl.clone()));
        }
    }
    for k in 0..ag.epp.len() {
        items.push(Item::Epp(k));
    }
    if !ag.avoid_insert.is_empty() {
        items.push(Item::Avoid);
    }
    if ag.expect.is_some() {
        items.push(Item::Expect);
    }
    if ag.expect_rr.is_some() {
        items.push(Item::ExpectRr);
    }
    let parse_param = matches!(kind, YKind::UserAction | YKind::Grmtools) && w.ch.chance(1, 3);
    if parse_param {
        items.push(Item::ParseParam);
    }
    if w.ch.chance(1, 4) {
        items.push(Item::ParseGenerics);
    }
    if w.ch.chance(1, 6) {
        items.push(Item::ExpectUnused);
    }
    if kind == YKind::UserAction {
        items.push(Item::ActionType);
    }
    if kind == YKind::Eco && !ag.implicit_tokens.is_empty() {
        items.push(Item::Implicit);
    }
    // shuffle (Fisher-Yates driven by the stream)
    for i in (1..items.len()).rev() {
        let j = w.ch.pick(i + 1);
        items.swap(i, j);
    }
    // precedence lines inserted at random positions but in order
    let mut pos = 0usize;
    for k in 0..ag.precs.len() {
        pos = pos + w.ch.pick(items.len() - pos + 1);
        items.insert(pos, Item::Prec(k));
        pos += 1;
    }
    w.any_ws(false);
    for it in items {
        // a list of names ends with its line; a `//` comment may stand between the last name and
        // the line end, with the next declaration starting right on the next line
        let listlike = matches!(it, Item::Token(_) | Item::Prec(_) | Item::Avoid | Item::Implicit | Item::Start | Item::Expect | Item::ExpectRr);
        match it {
            Item::Start => {
                w.s.push_str("%start");
                w.inline_ws(true);
                w.s.push_str(&ag.rules[ag.start].name);
            }
            Item::Token(ts) => {
                w.s.push_str("%token");
                w.inline_ws(true);
                for (k, t) in ts.iter().enumerate() {
                    if k > 0 {
                        w.any_ws(true);
                    }
                    let sp = spell(&mut w, &ag.tokens[*t], is_ident(&ag.tokens[*t]) && !rule_names.contains(&ag.tokens[*t].as_str()), true);
                    if lay.token_first[*t].is_none() {
                        lay.token_first[*t] = Some(sp);
                    }
                }
            }
            Item::Prec(k) => {
                let l = &ag.precs[k];
                w.s.push_str(match l.kind {
                    Assoc::Left => "%left",
                    Assoc::Right => "%right",
                    Assoc::Nonassoc => "%nonassoc",
                });
                for t in &l.tokens {
                    w.inline_ws(true);
                    // precedence lines do not introduce tokens; bare spelling needs the
                    // declaration to come first, so only quoted spellings here
                    spell(&mut w, &ag.tokens[*t], false, false);
                }
            }
            Item::Epp(k) => {
                let (t, v) = &ag.epp[k];
                w.s.push_str("%epp");
                w.inline_ws(true);
                spell(&mut w, &ag.tokens[*t], false, false);
                w.inline_ws(true);
                let q = if w.ch.chance(1, 2) { '"' } else { '\'' };
                w.s.push(q);
                for c in v.chars() {
                    if c == '"' || c == '\'' {
                        if c == q || w.ch.chance(1, 2) {
                            w.s.push('\\');
                            w.feat("epp-escaped-quote");
                        }
                    }
                    w.s.push(c);
                }
                w.s.push(q);
            }
            Item::Avoid => {
                w.s.push_str("%avoid_insert");
                for t in &ag.avoid_insert {
                    w.inline_ws(true);
                    let sp = spell(&mut w, &ag.tokens[*t], false, false);
                    if lay.token_first[*t].is_none() {
                        lay.token_first[*t] = Some(sp);
                    }
                }
            }
            Item::Implicit => {
                w.s.push_str("%implicit_tokens");
                for t in &ag.implicit_tokens {
                    w.inline_ws(true);
                    let sp = spell(&mut w, &ag.tokens[*t], false, false);
                    if lay.token_first[*t].is_none() {
                        lay.token_first[*t] = Some(sp);
                    }
                }
            }
            Item::Expect => {
                w.s.push_str("%expect");
                w.inline_ws(true);
                w.s.push_str(&ag.expect.unwrap().to_string());
            }
            Item::ExpectRr => {
                w.s.push_str("%expect-rr");
                w.inline_ws(true);
                w.s.push_str(&ag.expect_rr.unwrap().to_string());
            }
            Item::ParseParam => {
                w.s.push_str("%parse-param p: &'a mut u8");
            }
            Item::ExpectUnused => {
                // names one or two existing symbols; does not introduce tokens
                w.s.push_str("%expect-unused");
                let k = w.ch.range(1, 2);
                for _ in 0..k {
                    w.inline_ws(true);
                    if nt == 0 || w.ch.chance(1, 2) {
                        let r = w.ch.pick(nr);
                        w.s.push_str(&ag.rules[r].name);
                    } else {
                        let t = w.ch.pick(nt);
                        let q = if ag.tokens[t].contains('\'') { '"' } else { '\'' };
                        w.s.push(q);
                        w.s.push_str(&ag.tokens[t]);
                        w.s.push(q);
                    }
                }
                w.feat("expect-unused");
            }
            Item::ParseGenerics => {
                w.s.push_str("%parse-generics 'a, T: Copy");
                w.feat("parse-generics");
            }
            Item::ActionType => {
                w.s.push_str("%actiontype Vec<é>");
            }
        }
        // every declaration ends its line
        if w.ch.chance(1, 4) {
            w.s.push(' ');
        }
        if listlike && w.comments && w.ch.chance(1, 4) {
            w.s.push_str(if w.s.ends_with(' ') { "// trailing" } else { " // trailing" });
            w.nl();
            w.feat("comment-ends-declaration-line");
        } else {
            w.nl();
            w.any_ws(false);
        }
        // make sure the next declaration starts at a fresh token boundary
        if !w.s.ends_with('\n') && !w.s.ends_with(' ') && !w.s.ends_with('/') {
            w.nl();
        }
    }
    w.s.push_str("%%");
    w.any_ws(false);
    if !w.s.ends_with(|c: char| c.is_whitespace() || c == '/') {
        w.nl();
    }

    // ---- rules: blocks
    // order of rules: the start rule first when %start is implicit
    let mut order: Vec<usize> = (0..nr).collect();
    if !explicit_start {
        order.retain(|r| *r != ag.start);
        order.insert(0, ag.start);
    } else if w.ch.chance(1, 3) {
        let k = w.ch.pick(nr);
        order.rotate_left(k);
    }
    // split some rules in two blocks: (rule, first prod index, count)
    let mut blocks: Vec<(usize, usize, usize)> = vec![];
    let mut tails: Vec<(usize, usize, usize)> = vec![];
    for r in &order {
        let np = ag.rules[*r].prods.len();
        if np >= 2 && w.ch.chance(1, 4) {
            let k = 1 + w.ch.pick(np - 1);
            blocks.push((*r, 0, k));
            tails.push((*r, k, np - k));
            w.feat("rule-split-in-blocks");
        } else {
            blocks.push((*r, 0, np));
        }
    }
    // tails go somewhere after their head
    for t in tails {
        let head = blocks.iter().position(|b| b.0 == t.0).unwrap();
        let at = head + 1 + w.ch.pick(blocks.len() - head);
        blocks.insert(at, t);
    }
    for (r, p0, cnt) in blocks {
        let rule = &ag.rules[r];
        let st = w.s.len();
        w.s.push_str(&rule.name);
        if lay.rule_name[r].is_none() {
            lay.rule_name[r] = Some((st, w.s.len()));
            lay.rule_order.push(r);
        }
        if kind == YKind::Grmtools {
            w.any_ws(false);
            w.s.push_str("->");
            w.any_ws(false);
            w.s.push_str(rule.actiontype.as_deref().unwrap_or("()"));
            // everything up to the single colon is the type: only plain spaces here
            if w.ch.chance(1, 2) {
                w.s.push(' ');
            }
        } else {
            w.any_ws(false);
        }
        w.s.push(':');
        for k in 0..cnt {
            let p: &AgProd = &rule.prods[p0 + k];
            w.any_ws(false);
            let mut pl = ProdLay {
                rule: r,
                prod: p0 + k,
                ..ProdLay::default()
            };
            let mut started = false;
            let mut last_end = w.s.len();
            if p.syms.is_empty() {
                if w.ch.chance(1, 2) {
                    pl.start = w.s.len();
                    w.s.push_str("%empty");
                    last_end = w.s.len();
                    started = true;
                    w.feat("percent-empty");
                } else {
                    pl.empty_no_marker = true;
                }
            }
            for (si, sy) in p.syms.iter().enumerate() {
                if si > 0 {
                    w.any_ws(true);
                }
                let here = w.s.len();
                match sy {
                    Sym::T(t) => {
                        let sp = spell(&mut w, &ag.tokens[*t], bare_ok[*t], true);
                        if lay.token_first[*t].is_none() {
                            lay.token_first[*t] = Some(sp);
                        }
                    }
                    Sym::R(x) => w.s.push_str(&ag.rules[*x].name),
                }
                if !started {
                    pl.start = here;
                    started = true;
                }
                last_end = w.s.len();
            }
            if let Some(t) = p.prec {
                w.any_ws(true);
                let here = w.s.len();
                w.s.push_str("%prec");
                w.any_ws(true);
                let sp = spell(&mut w, &ag.tokens[t], bare_ok[t], true);
                if lay.token_first[t].is_none() {
                    lay.token_first[t] = Some(sp);
                }
                if !started {
                    pl.start = here;
                    started = true;
                }
                last_end = w.s.len();
                w.feat("prec-override");
            }
            if let Some(a) = &p.action {
                w.any_ws(true);
                let open = w.s.len();
                w.s.push('{');
                if w.ch.chance(1, 2) {
                    w.s.push(' ');
                }
                // 1/6: the padding inside the braces is white space other than blank, tab or line
                // feed (all of it is trimmed off the action text)
                let exotic = w.ch.chance(1, 6);
                if exotic {
                    w.s.push_str(*w.ch.choose(&["\u{b}", "\u{85}", "\u{2028}", "\u{a0}", "\u{3000} "]));
                    w.feat("action-padded-with-exotic-white-space");
                }
                w.s.push_str(a);
                if exotic {
                    w.s.push_str(*w.ch.choose(&["\u{b}", "\u{2029}\u{b}", " \u{85}", "\u{a0}"]));
                }
                if w.ch.chance(1, 2) {
                    w.s.push_str(" \n");
                }
                let close = w.s.len();
                w.s.push('}');
                pl.action = Some((open, close));
                if !started {
                    pl.start = open;
                    last_end = open;
                    started = true;
                }
                if p.prec.is_some() {
                    w.feat("prec-followed-by-action");
                }
            }
            w.any_ws(false);
            if !started {
                pl.start = w.s.len();
                last_end = w.s.len();
            }
            pl.end = last_end;
            lay.prods.push(pl);
            if k + 1 < cnt {
                w.s.push('|');
            }
        }
        w.s.push(';');
        w.any_ws(false);
        if !w.s.ends_with(|c: char| c.is_whitespace() || c == '/') {
            w.nl();
        }
    }
    if w.ch.chance(1, 3) {
        // programs section
        w.s.push_str("%%");
        let prog = *w.ch.choose(PROGRAMS);
        if !prog.is_empty() || w.ch.chance(1, 2) {
            w.any_ws(false);
            if w.s.ends_with('/') {
                w.nl();
            }
        }
        w.s.push_str(prog);
        lay.programs = Some(prog.to_string());
        w.feat("programs");
    }
    lay.features = w.feats.clone();
    (w.s, lay)
}

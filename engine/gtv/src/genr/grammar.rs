//! Abstract grammars (AG): generated first, `.y` text is rendered from them; oracles read the AG.

use super::choices::Choices;
use serde::{Deserialize, Serialize};
use std::collections::{BTreeMap, BTreeSet};

#[derive(Serialize, Deserialize, Clone, Copy, Debug, PartialEq, Eq, PartialOrd, Ord, Hash)]
pub enum Sym {
    T(usize),
    R(usize),
}

#[derive(Serialize, Deserialize, Clone, Copy, Debug, PartialEq, Eq)]
pub enum Assoc {
    Left,
    Right,
    Nonassoc,
}

#[derive(Serialize, Deserialize, Clone, Debug, PartialEq)]
pub struct AgProd {
    pub syms: Vec<Sym>,
    /// `%prec` token
    #[serde(default)]
    pub prec: Option<usize>,
    #[serde(default)]
    pub action: Option<String>,
}

#[derive(Serialize, Deserialize, Clone, Debug, PartialEq)]
pub struct AgRule {
    pub name: String,
    pub prods: Vec<AgProd>,
    #[serde(default)]
    pub actiontype: Option<String>,
}

#[derive(Serialize, Deserialize, Clone, Debug, PartialEq)]
pub struct PrecLine {
    pub kind: Assoc,
    pub tokens: Vec<usize>,
}

#[derive(Serialize, Deserialize, Clone, Debug, PartialEq, Default)]
pub struct AG {
    pub tokens: Vec<String>,
    pub rules: Vec<AgRule>,
    pub start: usize,
    #[serde(default)]
    pub precs: Vec<PrecLine>,
    #[serde(default)]
    pub avoid_insert: Vec<usize>,
    #[serde(default)]
    pub epp: Vec<(usize, String)>,
    #[serde(default)]
    pub expect: Option<usize>,
    #[serde(default)]
    pub expect_rr: Option<usize>,
    #[serde(default)]
    pub implicit_tokens: Vec<usize>,
    #[serde(default)]
    pub stratum: String,
    /// declare every token with %token, in AG order (so that token indices follow the AG order)
    #[serde(default)]
    pub declare_all: bool,
}

impl AG {
    pub fn nprods(&self) -> usize {
        self.rules.iter().map(|r| r.prods.len()).sum()
    }
    /// Flat list of productions (rule index, symbols) in rule order, then production order.
    pub fn flat_prods(&self) -> Vec<(usize, &AgProd)> {
        let mut v = vec![];
        for (ri, r) in self.rules.iter().enumerate() {
            for p in &r.prods {
                v.push((ri, p));
            }
        }
        v
    }
    /// (level, assoc) of a token; levels start at 1 and follow declaration line order.
    pub fn token_prec(&self, t: usize) -> Option<(usize, Assoc)> {
        for (i, l) in self.precs.iter().enumerate() {
            if l.tokens.contains(&t) {
                return Some((i + 1, l.kind));
            }
        }
        None
    }
    /// Yacc's production precedence: `%prec` token, else right-most token of the production.
    pub fn prod_prec(&self, p: &AgProd) -> Option<(usize, Assoc)> {
        if let Some(t) = p.prec {
            return self.token_prec(t);
        }
        for s in p.syms.iter().rev() {
            if let Sym::T(t) = s {
                return self.token_prec(*t);
            }
        }
        None
    }
    pub fn has_precedence(&self) -> bool {
        !self.precs.is_empty()
    }
    /// Tokens actually used somewhere (productions, %prec, precedence lines, declarations are all
    /// rendered so every token of `tokens` is known to the implementation through %token).
    pub fn canonical_string(&self) -> String {
        serde_json::to_string(self).unwrap()
    }
}

// ---------------------------------------------------------------------------------------------
// analyses needed by the generator itself (the oracle versions live in refimpl::analyses)

pub fn nullable_set(ag: &AG) -> Vec<bool> {
    let mut n = vec![false; ag.rules.len()];
    loop {
        let mut changed = false;
        for (i, r) in ag.rules.iter().enumerate() {
            if n[i] {
                continue;
            }
            if r.prods.iter().any(|p| {
                p.syms.iter().all(|s| match s {
                    Sym::T(_) => false,
                    Sym::R(j) => n[*j],
                })
            }) {
                n[i] = true;
                changed = true;
            }
        }
        if !changed {
            return n;
        }
    }
}

pub fn productive_set(ag: &AG) -> Vec<bool> {
    let mut n = vec![false; ag.rules.len()];
    loop {
        let mut changed = false;
        for (i, r) in ag.rules.iter().enumerate() {
            if n[i] {
                continue;
            }
            if r.prods.iter().any(|p| {
                p.syms.iter().all(|s| match s {
                    Sym::T(_) => true,
                    Sym::R(j) => n[*j],
                })
            }) {
                n[i] = true;
                changed = true;
            }
        }
        if !changed {
            return n;
        }
    }
}

/// Edges A -> B such that A => alpha B beta with alpha, beta =>* epsilon (one derivation step that
/// can leave just B). A cycle in this graph is a derivation cycle A =>+ A.
pub fn unit_edges(ag: &AG) -> Vec<(usize, usize, usize, usize)> {
    // (from rule, prod index in rule, symbol position, to rule)
    let nul = nullable_set(ag);
    let mut e = vec![];
    for (ri, r) in ag.rules.iter().enumerate() {
        for (pi, p) in r.prods.iter().enumerate() {
            for (si, s) in p.syms.iter().enumerate() {
                if let Sym::R(b) = s {
                    let others_nullable = p.syms.iter().enumerate().all(|(k, s2)| {
                        k == si
                            || match s2 {
                                Sym::T(_) => false,
                                Sym::R(j) => nul[*j],
                            }
                    });
                    if others_nullable {
                        e.push((ri, pi, si, *b));
                    }
                }
            }
        }
    }
    e
}

/// Returns one (rule, prod) lying on a derivation cycle, if any.
pub fn find_cycle_prod(ag: &AG) -> Option<(usize, usize)> {
    let edges = unit_edges(ag);
    let n = ag.rules.len();
    // reach[a][b] : a =>+ b through unit edges
    let mut reach = vec![vec![false; n]; n];
    for &(a, _, _, b) in &edges {
        reach[a][b] = true;
    }
    for k in 0..n {
        for i in 0..n {
            if reach[i][k] {
                for j in 0..n {
                    if reach[k][j] {
                        reach[i][j] = true;
                    }
                }
            }
        }
    }
    for &(a, pi, _, b) in &edges {
        if b == a || reach[b][a] {
            return Some((a, pi));
        }
    }
    None
}

pub fn has_derivation_cycle(ag: &AG) -> bool {
    find_cycle_prod(ag).is_some()
}

/// Make the grammar cycle free by replacing each production on a cycle by a single token
/// (keeps every rule productive and keeps the rule count).
pub fn repair_cycles(ag: &mut AG) -> usize {
    let mut n = 0;
    while let Some((r, p)) = find_cycle_prod(ag) {
        let t = (r + p) % ag.tokens.len().max(1);
        ag.rules[r].prods[p] = AgProd {
            syms: vec![Sym::T(t)],
            prec: None,
            action: None,
        };
        n += 1;
        if n > 200 {
            break;
        }
    }
    n
}

// ---------------------------------------------------------------------------------------------
// generation

#[derive(Clone, Debug)]
pub struct GenOpts {
    pub max_rules: usize,
    pub max_prods: usize,
    pub max_syms: usize,
    pub max_tokens: usize,
    pub allow_cycles: bool,
    pub allow_unproductive: bool,
    /// weights of strata: rand, expr, lr1, repo
    pub strata: [usize; 4],
    /// precedence lines allowed (expr stratum, and random lines on rand)
    pub precedence: bool,
    pub avoid_insert: bool,
    /// sometimes (1/10) add 58..=135 keyword tokens so that token sets span several machine words
    pub pad_tokens: bool,
}

impl GenOpts {
    pub fn small() -> Self {
        GenOpts {
            max_rules: 5,
            max_prods: 4,
            max_syms: 4,
            max_tokens: 5,
            allow_cycles: false,
            allow_unproductive: false,
            strata: [5, 2, 2, 1],
            precedence: true,
            avoid_insert: false,
            pad_tokens: false,
        }
    }
}

fn tok_names(n: usize) -> Vec<String> {
    (0..n).map(|i| format!("t{i}")).collect()
}

pub fn gen_rand(ch: &mut Choices, o: &GenOpts) -> AG {
    let nt = ch.range(1, o.max_tokens);
    let nr = ch.range(1, o.max_rules);
    let mut ag = AG {
        tokens: tok_names(nt),
        stratum: "rand".into(),
        ..AG::default()
    };
    for i in 0..nr {
        let np = ch.range(1, o.max_prods);
        let mut prods = vec![];
        for k in 0..np {
            let len = ch.weighted(&[2, 4, 4, 3, 2, 1, 1, 1]).min(o.max_syms);
            let mut syms = vec![];
            for _ in 0..len {
                let want_rule = ch.chance(1, 2);
                if k == 0 {
                    // base production: tokens and *later* rules only => productive by induction
                    if want_rule && i + 1 < nr {
                        syms.push(Sym::R(ch.range(i + 1, nr - 1)));
                    } else {
                        syms.push(Sym::T(ch.pick(nt)));
                    }
                } else if want_rule {
                    syms.push(Sym::R(ch.pick(nr)));
                } else {
                    syms.push(Sym::T(ch.pick(nt)));
                }
            }
            prods.push(AgProd {
                syms,
                prec: None,
                action: None,
            });
        }
        ag.rules.push(AgRule {
            name: format!("R{i}"),
            prods,
            actiontype: None,
        });
    }
    if o.allow_unproductive && ch.chance(1, 4) {
        // a rule all of whose productions mention itself
        let i = ag.rules.len();
        let mut prods = vec![];
        for _ in 0..ch.range(1, 2) {
            let mut syms = vec![Sym::R(i)];
            if ch.chance(1, 2) {
                syms.insert(0, Sym::T(ch.pick(nt)));
            }
            if ch.chance(1, 2) {
                syms.push(Sym::T(ch.pick(nt)));
            }
            prods.push(AgProd {
                syms,
                prec: None,
                action: None,
            });
        }
        ag.rules.push(AgRule {
            name: format!("R{i}"),
            prods,
            actiontype: None,
        });
        // referenced from somewhere with some probability
        if ch.chance(2, 3) {
            let r = ch.pick(i);
            let p = ch.pick(ag.rules[r].prods.len());
            let mut np = ag.rules[r].prods[p].clone();
            let pos = ch.pick(np.syms.len() + 1);
            np.syms.insert(pos, Sym::R(i));
            ag.rules[r].prods.push(np);
        }
    }
    if ch.chance(1, 4) {
        add_nullable_chain(ch, &mut ag);
    }
    if o.precedence && ch.chance(1, 4) {
        add_random_precs(ch, &mut ag);
    }
    ag
}

/// A chain of rules that is nullable only through other rules (`N0: N1 | t; N1: N2; N2: ;`),
/// declared top-down or bottom-up, referenced from the middle of an existing production.
/// Nullability then has to travel up the chain, one level per pass of a fixed-point loop.
fn add_nullable_chain(ch: &mut Choices, ag: &mut AG) {
    let depth = ch.range(2, 4);
    let base = ag.rules.len();
    let top_down = ch.chance(2, 3);
    let nt = ag.tokens.len();
    // index of level k (0 = top) in declaration order
    let idx = |k: usize| if top_down { base + k } else { base + depth - 1 - k };
    let mut rules: Vec<AgRule> = (0..depth)
        .map(|k| AgRule {
            name: format!("N{}", if top_down { k } else { depth - 1 - k }),
            prods: vec![],
            actiontype: None,
        })
        .collect();
    for k in 0..depth {
        let slot = if top_down { k } else { depth - 1 - k };
        if k + 1 < depth {
            rules[slot].prods.push(AgProd {
                syms: vec![Sym::R(idx(k + 1))],
                prec: None,
                action: None,
            });
            if k == 0 && ch.chance(1, 2) {
                rules[slot].prods.push(AgProd {
                    syms: vec![Sym::T(ch.pick(nt))],
                    prec: None,
                    action: None,
                });
            }
        } else {
            rules[slot].prods.push(AgProd {
                syms: vec![],
                prec: None,
                action: None,
            });
        }
        rules[slot].name = format!("N{k}");
    }
    ag.rules.extend(rules);
    // reference the top of the chain, preferably right after a rule symbol
    let r = ch.pick(base);
    let p = ch.pick(ag.rules[r].prods.len());
    let syms = &ag.rules[r].prods[p].syms;
    let after_rule: Vec<usize> = (0..syms.len()).filter(|i| matches!(syms[*i], Sym::R(_))).map(|i| i + 1).collect();
    let pos = if !after_rule.is_empty() && ch.chance(2, 3) {
        *ch.choose(&after_rule)
    } else {
        ch.pick(syms.len() + 1)
    };
    let mut np = ag.rules[r].prods[p].clone();
    np.syms.insert(pos, Sym::R(idx(0)));
    if ch.chance(1, 2) {
        np.syms.insert(pos + 1, Sym::T(ch.pick(nt)));
    }
    ag.rules[r].prods.push(np);
}

fn add_random_precs(ch: &mut Choices, ag: &mut AG) {
    let nt = ag.tokens.len();
    let mut free: Vec<usize> = (0..nt).collect();
    let lines = ch.range(1, 3);
    for _ in 0..lines {
        if free.is_empty() {
            break;
        }
        let kind = *ch.choose(&[Assoc::Left, Assoc::Right, Assoc::Nonassoc]);
        let k = ch.range(1, 2.min(free.len()));
        let mut toks = vec![];
        for _ in 0..k {
            let i = ch.pick(free.len());
            toks.push(free.remove(i));
        }
        ag.precs.push(PrecLine { kind, tokens: toks });
    }
    // %prec overrides (the token must have a precedence: `%prec` onto a token without one is
    // rejected by the grammar parser)
    let with_prec: Vec<usize> = (0..nt).filter(|t| ag.token_prec(*t).is_some()).collect();
    for r in 0..ag.rules.len() {
        for p in 0..ag.rules[r].prods.len() {
            if ch.chance(1, 8) && !with_prec.is_empty() {
                ag.rules[r].prods[p].prec = Some(*ch.choose(&with_prec));
            }
        }
    }
}

/// Ambiguous expression grammars with precedence declarations (drives C03 / C16).
pub fn gen_expr(ch: &mut Choices, o: &GenOpts) -> AG {
    let nbin = ch.range(1, 4);
    let npre = ch.weighted(&[3, 2, 1]);
    let npost = ch.weighted(&[4, 1, 1]);
    let natom = ch.range(1, 2);
    let paren = ch.chance(1, 3);
    let mut tokens = vec![];
    let mut bin = vec![];
    let mut pre = vec![];
    let mut post = vec![];
    let mut atoms = vec![];
    for i in 0..nbin {
        bin.push(tokens.len());
        tokens.push(format!("b{i}"));
    }
    for i in 0..npre {
        pre.push(tokens.len());
        tokens.push(format!("p{i}"));
    }
    for i in 0..npost {
        post.push(tokens.len());
        tokens.push(format!("q{i}"));
    }
    for i in 0..natom {
        atoms.push(tokens.len());
        tokens.push(format!("a{i}"));
    }
    let (lp, rp) = if paren {
        let l = tokens.len();
        tokens.push("lp".into());
        tokens.push("rp".into());
        (l, l + 1)
    } else {
        (0, 0)
    };
    let mut ag = AG {
        tokens,
        stratum: "expr".into(),
        ..AG::default()
    };
    let two_rules = ch.chance(1, 3);
    let e = 0usize;
    let t = if two_rules { 1usize } else { 0usize };
    let mut eprods = vec![];
    // a prefix operator reused as binary operator (unary minus style)
    let reuse = !pre.is_empty() && ch.chance(1, 2);
    for (k, &b) in bin.iter().enumerate() {
        let rhs = if two_rules && ch.chance(1, 2) { t } else { e };
        eprods.push(AgProd {
            syms: vec![Sym::R(e), Sym::T(b), Sym::R(rhs)],
            prec: None,
            action: None,
        });
        if k == 0 && ch.chance(1, 5) {
            // production whose last token differs from its operator
            eprods.push(AgProd {
                syms: vec![Sym::R(e), Sym::T(b), Sym::R(e), Sym::T(atoms[0])],
                prec: None,
                action: None,
            });
        }
    }
    for &p in &pre {
        eprods.push(AgProd {
            syms: vec![Sym::T(p), Sym::R(e)],
            prec: None,
            action: None,
        });
    }
    if reuse {
        eprods.push(AgProd {
            syms: vec![Sym::R(e), Sym::T(pre[0]), Sym::R(e)],
            prec: None,
            action: None,
        });
    }
    for &q in &post {
        eprods.push(AgProd {
            syms: vec![Sym::R(e), Sym::T(q)],
            prec: None,
            action: None,
        });
    }
    if paren {
        eprods.push(AgProd {
            syms: vec![Sym::T(lp), Sym::R(e), Sym::T(rp)],
            prec: None,
            action: None,
        });
    }
    let mut tprods = vec![];
    for &a in &atoms {
        tprods.push(AgProd {
            syms: vec![Sym::T(a)],
            prec: None,
            action: None,
        });
    }
    if two_rules {
        eprods.push(AgProd {
            syms: vec![Sym::R(t)],
            prec: None,
            action: None,
        });
        if ch.chance(1, 2) {
            tprods.push(AgProd {
                syms: vec![Sym::R(t), Sym::T(bin[0]), Sym::R(t)],
                prec: None,
                action: None,
            });
        }
        ag.rules.push(AgRule {
            name: "E".into(),
            prods: eprods,
            actiontype: None,
        });
        ag.rules.push(AgRule {
            name: "T".into(),
            prods: tprods,
            actiontype: None,
        });
    } else {
        eprods.extend(tprods);
        ag.rules.push(AgRule {
            name: "E".into(),
            prods: eprods,
            actiontype: None,
        });
    }
    // multi-way reduce/reduce alternatives: the same right-hand side in 2-3 rules
    if ch.chance(1, 4) {
        let k = ch.range(2, 3);
        let a = atoms[0];
        let base = ag.rules.len();
        for i in 0..k {
            ag.rules.push(AgRule {
                name: format!("X{i}"),
                prods: vec![AgProd {
                    syms: vec![Sym::T(a)],
                    prec: None,
                    action: None,
                }],
                actiontype: None,
            });
        }
        for i in 0..k {
            ag.rules[0].prods.push(AgProd {
                syms: vec![Sym::R(base + i)],
                prec: None,
                action: None,
            });
        }
    }
    // shuffle production order inside E a little (rotate)
    let n0 = ag.rules[0].prods.len();
    let rot = ch.pick(n0);
    ag.rules[0].prods.rotate_left(rot);

    if o.precedence {
        // precedence lines over a random subset of the operators (some tokens stay without)
        let mut ops: Vec<usize> = bin.iter().chain(pre.iter()).chain(post.iter()).cloned().collect();
        if ch.chance(1, 6) {
            ops.push(atoms[0]);
        }
        let lines = ch.range(0, 4);
        for _ in 0..lines {
            if ops.is_empty() {
                break;
            }
            let kind = *ch.choose(&[Assoc::Left, Assoc::Right, Assoc::Nonassoc]);
            let k = ch.range(1, 2.min(ops.len()));
            let mut toks = vec![];
            for _ in 0..k {
                let i = ch.pick(ops.len());
                toks.push(ops.remove(i));
            }
            ag.precs.push(PrecLine { kind, tokens: toks });
        }
        // %prec overrides onto any token (higher, lower, equal, nonassoc levels, or none)
        let nt = ag.tokens.len();
        let with_prec: Vec<usize> = (0..nt).filter(|t| ag.token_prec(*t).is_some()).collect();
        for p in 0..ag.rules[0].prods.len() {
            if ch.chance(1, 6) && !with_prec.is_empty() {
                ag.rules[0].prods[p].prec = Some(*ch.choose(&with_prec));
            }
        }
    }
    ag
}

/// LR(1)-but-not-necessarily-LALR(1) family:
/// `S: p_i M_f(i,j) s_j` for a random function f; every `M_x` derives the same body.
/// Second LR(1)-not-LALR(1) family: the contexts come from outer paths, not from prefix tokens.
/// Wrapper rules `W_{g,k}: x_g M_k` (one prefix token per group g) are used with different
/// suffix tokens at the top level and below `y_c T_c`, so kernel states with the same core
/// `{W_{g,k} -> x_g . M_k}` but different lookaheads are discovered one after the other; every
/// `M_k` has the same one or two alternatives, so such a state has one or two successors that
/// Pager may merge first and split (together) when the state is re-processed after a later merge.
fn gen_lr1_wrapped(ch: &mut Choices) -> AG {
    let ng = ch.range(1, 2);
    let nm = ch.range(2, 3);
    let nctx = ch.range(2, 3);
    let ns = ch.range(2, 3);
    let mut ag = AG {
        stratum: "lr1-wrapped".into(),
        ..AG::default()
    };
    let mut tok = |ag: &mut AG, n: String| {
        ag.tokens.push(n);
        ag.tokens.len() - 1
    };
    let xs: Vec<usize> = (0..ng).map(|g| tok(&mut ag, format!("x{g}"))).collect();
    let ss: Vec<usize> = (0..ns).map(|j| tok(&mut ag, format!("s{j}"))).collect();
    let ys: Vec<usize> = (1..nctx).map(|c| tok(&mut ag, format!("y{c}"))).collect();
    let nalt = ch.range(1, 2);
    let alts: Vec<Vec<usize>> = (0..nalt)
        .map(|a| {
            let l = ch.range(1, 2);
            (0..l).map(|i| tok(&mut ag, format!("c{a}{i}"))).collect()
        })
        .collect();
    // rule numbering: 0 = S, 1..nctx-1 = T_c, then W_{g,k}, then M_k
    let t_rule = |c: usize| c; // c >= 1
    let w_rule = |g: usize, k: usize| nctx + g * nm + k;
    let m_rule = |k: usize| nctx + ng * nm + k;
    let mk = |syms: Vec<Sym>| AgProd {
        syms,
        prec: None,
        action: None,
    };
    let mut ctx_prods: Vec<Vec<AgProd>> = vec![vec![]; nctx];
    for (c, prods) in ctx_prods.iter_mut().enumerate() {
        for g in 0..ng {
            for j in 0..ns {
                if ch.chance(1, 5) {
                    continue;
                }
                let k = ch.pick(nm);
                prods.push(mk(vec![Sym::R(w_rule(g, k)), Sym::T(ss[j])]));
            }
        }
        if prods.is_empty() {
            prods.push(mk(vec![Sym::R(w_rule(0, 0)), Sym::T(ss[0])]));
        }
        let _ = c;
    }
    let mut sprods = ctx_prods[0].clone();
    for c in 1..nctx {
        // one or two y tokens in front of the nested context
        let mut syms = vec![Sym::T(ys[c - 1])];
        if ch.chance(1, 2) {
            syms.push(Sym::T(ys[c - 1]));
        }
        syms.push(Sym::R(t_rule(c)));
        sprods.push(mk(syms));
    }
    ag.rules.push(AgRule {
        name: "S".into(),
        prods: sprods,
        actiontype: None,
    });
    for (c, prods) in ctx_prods.iter().enumerate().skip(1) {
        ag.rules.push(AgRule {
            name: format!("T{c}"),
            prods: prods.clone(),
            actiontype: None,
        });
    }
    for g in 0..ng {
        for k in 0..nm {
            ag.rules.push(AgRule {
                name: format!("W{g}_{k}"),
                prods: vec![mk(vec![Sym::T(xs[g]), Sym::R(m_rule(k))])],
                actiontype: None,
            });
        }
    }
    for k in 0..nm {
        ag.rules.push(AgRule {
            name: format!("M{k}"),
            prods: alts.iter().map(|a| mk(a.iter().map(|t| Sym::T(*t)).collect())).collect(),
            actiontype: None,
        });
    }
    ag
}

pub fn gen_lr1(ch: &mut Choices, o: &GenOpts) -> AG {
    if ch.chance(1, 8) {
        return pager_paper(ch);
    }
    if ch.chance(1, 3) {
        return gen_lr1_wrapped(ch);
    }
    let np = ch.range(2, 3);
    let ns = ch.range(2, 3);
    let nm = ch.range(2, 3);
    let blen = ch.range(1, 3);
    let mut tokens = vec![];
    let pfx: Vec<usize> = (0..np)
        .map(|i| {
            tokens.push(format!("p{i}"));
            tokens.len() - 1
        })
        .collect();
    let sfx: Vec<usize> = (0..ns)
        .map(|i| {
            tokens.push(format!("s{i}"));
            tokens.len() - 1
        })
        .collect();
    let body: Vec<usize> = (0..blen)
        .map(|i| {
            tokens.push(format!("c{i}"));
            tokens.len() - 1
        })
        .collect();
    let nullable_tail = ch.chance(1, 4);
    let mut ag = AG {
        tokens,
        stratum: "lr1".into(),
        ..AG::default()
    };
    let mut sprods = vec![];
    for (i, &p) in pfx.iter().enumerate() {
        for (j, &s) in sfx.iter().enumerate() {
            // keep most pairs
            if (i, j) != (0, 0) && ch.chance(1, 6) {
                continue;
            }
            let m = ch.pick(nm);
            sprods.push(AgProd {
                syms: vec![Sym::T(p), Sym::R(1 + m), Sym::T(s)],
                prec: None,
                action: None,
            });
            // a second middle rule in the same context: harmless for LR(1) when its body is
            // longer (a shift item sharing the lookahead with a reduce item of the same state)
            if ch.chance(1, 3) {
                let m2 = ch.pick(nm);
                if m2 != m {
                    sprods.push(AgProd {
                        syms: vec![Sym::T(p), Sym::R(1 + m2), Sym::T(s)],
                        prec: None,
                        action: None,
                    });
                }
            }
        }
    }
    // some middle rules get one or two extra trailing tokens of their own
    let mut ext: Vec<Vec<usize>> = vec![vec![]; nm];
    if ch.chance(1, 2) {
        for e in ext.iter_mut() {
            if ch.chance(1, 3) {
                let k = ch.range(1, 2);
                for _ in 0..k {
                    ag.tokens.push(format!("v{}", ag.tokens.len()));
                    e.push(ag.tokens.len() - 1);
                }
            }
        }
    }
    ag.rules.push(AgRule {
        name: "S".into(),
        prods: sprods,
        actiontype: None,
    });
    let tail_rule = 1 + nm;
    // sometimes every middle rule has a second alternative of its own token(s), shared by all of
    // them: a context state then has two successors that Pager may have to split together
    let alt: Option<Vec<usize>> = if ch.chance(1, 3) {
        let k = ch.range(1, 2);
        Some(
            (0..k)
                .map(|i| {
                    ag.tokens.push(format!("g{i}"));
                    ag.tokens.len() - 1
                })
                .collect(),
        )
    } else {
        None
    };
    for m in 0..nm {
        let mut syms: Vec<Sym> = body.iter().map(|t| Sym::T(*t)).collect();
        if nullable_tail {
            syms.push(Sym::R(tail_rule));
        }
        syms.extend(ext[m].iter().map(|t| Sym::T(*t)));
        let mut prods = vec![AgProd {
            syms,
            prec: None,
            action: None,
        }];
        if let Some(a) = &alt {
            prods.push(AgProd {
                syms: a.iter().map(|t| Sym::T(*t)).collect(),
                prec: None,
                action: None,
            });
        }
        ag.rules.push(AgRule {
            name: format!("M{m}"),
            prods,
            actiontype: None,
        });
    }
    if nullable_tail {
        ag.rules.push(AgRule {
            name: "N".into(),
            prods: vec![
                AgProd {
                    syms: vec![],
                    prec: None,
                    action: None,
                },
                AgProd {
                    syms: vec![Sym::T(body[0]), Sym::R(tail_rule)],
                    prec: None,
                    action: None,
                },
            ],
            actiontype: None,
        });
        // `N: c0 N | ;` after a body ending in c0.. keeps LR(1)? the reference decides.
    }
    // embed into a small random grammar with some probability
    if ch.chance(1, 3) {
        let mut small = o.clone();
        small.max_rules = 2;
        small.max_prods = 2;
        small.max_syms = 3;
        small.max_tokens = 2;
        small.precedence = false;
        small.allow_unproductive = false;
        let outer = gen_rand(ch, &small);
        ag = embed(ch, outer, ag);
        ag.stratum = "lr1-embedded".into();
    }
    ag
}

/// Put `inner` (start rule = rule 0) into `outer`: tokens are kept disjoint, one production of
/// `outer` gets a reference to inner's start rule.
fn embed(ch: &mut Choices, mut outer: AG, inner: AG) -> AG {
    let toff = outer.tokens.len();
    let roff = outer.rules.len();
    for t in &inner.tokens {
        outer.tokens.push(format!("i{t}"));
    }
    for r in &inner.rules {
        let mut r2 = r.clone();
        r2.name = format!("I{}", r.name);
        for p in &mut r2.prods {
            for s in &mut p.syms {
                *s = match *s {
                    Sym::T(t) => Sym::T(t + toff),
                    Sym::R(x) => Sym::R(x + roff),
                };
            }
        }
        outer.rules.push(r2);
    }
    let r = ch.pick(roff);
    let p = ch.pick(outer.rules[r].prods.len());
    let mut np = outer.rules[r].prods[p].clone();
    let pos = ch.pick(np.syms.len() + 1);
    np.syms.insert(pos, Sym::R(roff));
    outer.rules[r].prods.push(np);
    outer
}

/// The example of Pager's paper as used in the repository's tests, with optional mutation.
fn pager_paper(ch: &mut Choices) -> AG {
    let mut ag = parse_simple(
        "X : 'a' Y 'd' | 'a' Z 'c' | 'a' T | 'b' Y 'e' | 'b' Z 'd' | 'b' T;
         Y : 't' W | 'u' X;
         Z : 't' 'u';
         T : 'u' X 'a';
         W : 'u' V;
         V : ;",
    );
    ag.stratum = "lr1-pager".into();
    if ch.chance(1, 2) {
        mutate(ch, &mut ag);
    }
    ag
}

/// 0-3 small edits: swap two productions, drop a symbol, add an empty alternative, duplicate a
/// production.
pub fn mutate(ch: &mut Choices, ag: &mut AG) {
    let n = ch.range(0, 3);
    for _ in 0..n {
        let r = ch.pick(ag.rules.len());
        match ch.pick(4) {
            0 => {
                let np = ag.rules[r].prods.len();
                if np >= 2 {
                    let a = ch.pick(np);
                    let b = ch.pick(np);
                    ag.rules[r].prods.swap(a, b);
                }
            }
            1 => {
                let p = ch.pick(ag.rules[r].prods.len());
                let l = ag.rules[r].prods[p].syms.len();
                if l >= 1 {
                    let k = ch.pick(l);
                    ag.rules[r].prods[p].syms.remove(k);
                }
            }
            2 => {
                ag.rules[r].prods.push(AgProd {
                    syms: vec![],
                    prec: None,
                    action: None,
                });
            }
            _ => {
                let p = ch.pick(ag.rules[r].prods.len());
                let np = ag.rules[r].prods[p].clone();
                ag.rules[r].prods.push(np);
            }
        }
    }
}

pub const REPO_GRAMMARS: &[&str] = &[
    // calc
    "%left '+'\n%left '*'\n%%\nExpr: Expr '+' Expr | Expr '*' Expr | '(' Expr ')' | 'INT';",
    "Expr: Expr '+' Term | Term; Term: Term '*' Factor | Factor; Factor: '(' Expr ')' | 'INT';",
    // Corchuelo et al.
    "E : 'N' | E '+' 'N' | '(' E ')';",
    // Kim-Yi example
    "S: A B 'c'; A: 'a' | ; B: 'b' | ;",
    // dangling else
    "S: 'if' E 'then' S | 'if' E 'then' S 'else' S | 'x'; E: 'e';",
    // the repository's test_merge grammar
    "S: T U; T: T1 | 'b' | T2; T1: 'a'; T2: 'c' | 'a' 'b' 'c'; U: 'd';",
    // java-ish unmatched
    "Stmts: Stmts Stmt | ; Stmt: 'id' '(' ')' ';' | '{' Stmts '}' ;",
    // dragon book 4.55
    "S: C C; C: 'c' C | 'd';",
    // grm3 of itemset tests
    "S: A 'b'; A: 'b' 'a' | 'b' B; B: 'c' ;",
    "S: L '=' R | R; L: '*' R | 'id'; R: L;",
];

pub fn gen_repo(ch: &mut Choices) -> AG {
    let i = ch.pick(REPO_GRAMMARS.len());
    let mut ag = parse_simple(REPO_GRAMMARS[i]);
    ag.stratum = "repo".into();
    mutate(ch, &mut ag);
    ag
}

/// Many-token stratum: 58..=135 keyword tokens `kN` inserted at a random position of the token list
/// (all tokens then declared in AG order), used by a new rule `Kw` that the start rule reaches
/// through a fresh first token. Token sets (FIRST/FOLLOW/lookaheads) then span 2-3 machine words
/// with the original tokens in the first, a middle or the last word.
pub fn pad_tokens(ch: &mut Choices, ag: &mut AG) {
    let nt = ag.tokens.len();
    if ag.tokens.iter().any(|t| t.starts_with('k') && t[1..].chars().all(|c| c.is_ascii_digit()) && t.len() > 1) {
        return;
    }
    let k = ch.range(58, 135);
    let at = ch.pick(nt + 1);
    let remap = |t: usize| if t >= at { t + k } else { t };
    for r in &mut ag.rules {
        for p in &mut r.prods {
            for s in &mut p.syms {
                if let Sym::T(t) = s {
                    *t = remap(*t);
                }
            }
            if let Some(t) = &mut p.prec {
                *t = remap(*t);
            }
        }
    }
    for l in &mut ag.precs {
        for t in &mut l.tokens {
            *t = remap(*t);
        }
    }
    for t in &mut ag.avoid_insert {
        *t = remap(*t);
    }
    for t in &mut ag.implicit_tokens {
        *t = remap(*t);
    }
    for (t, _) in &mut ag.epp {
        *t = remap(*t);
    }
    let pads: Vec<String> = (0..k).map(|i| format!("k{i}")).collect();
    let tail = ag.tokens.split_off(at);
    ag.tokens.extend(pads);
    ag.tokens.extend(tail);
    let kw = ag.rules.len();
    ag.rules.push(AgRule {
        name: "Kw".into(),
        prods: (0..k)
            .map(|i| AgProd {
                syms: vec![Sym::T(at + i)],
                prec: None,
                action: None,
            })
            .collect(),
        actiontype: ag.rules[0].actiontype.clone(),
    });
    let st = ag.start;
    ag.rules[st].prods.push(AgProd {
        syms: vec![Sym::T(at), Sym::R(kw)],
        prec: None,
        action: None,
    });
    ag.declare_all = true;
    ag.stratum.push_str("+padded");
}

/// Main entry: pick a stratum, generate, and (unless allowed) remove derivation cycles.
pub fn gen_grammar(ch: &mut Choices, o: &GenOpts) -> AG {
    let mut ag = match ch.weighted(&o.strata) {
        0 if o.pad_tokens && ch.chance(1, 30) => {
            // a larger grammar: up to 14 rules over up to 8 tokens (the flag is shared with the
            // many-token stratum: the properties that can afford wide token sets can afford these)
            let big = GenOpts { max_rules: 14, max_tokens: 8, max_prods: 3, ..o.clone() };
            let mut ag = gen_rand(ch, &big);
            ag.stratum.push_str("+large");
            ag
        }
        0 => gen_rand(ch, o),
        1 => gen_expr(ch, o),
        2 => gen_lr1(ch, o),
        _ => gen_repo(ch),
    };
    if !o.precedence {
        ag.precs.clear();
        for r in &mut ag.rules {
            for p in &mut r.prods {
                p.prec = None;
            }
        }
    }
    if !o.allow_cycles {
        let n = repair_cycles(&mut ag);
        if n > 0 {
            ag.stratum.push_str("+cycle-repaired");
        }
    }
    if !o.allow_unproductive {
        // mutations may have removed a base production: make unproductive rules productive
        let prod = productive_set(&ag);
        for (i, ok) in prod.iter().enumerate() {
            if !ok {
                let t = i % ag.tokens.len().max(1);
                ag.rules[i].prods.push(AgProd {
                    syms: vec![Sym::T(t)],
                    prec: None,
                    action: None,
                });
            }
        }
        if !o.allow_cycles {
            repair_cycles(&mut ag);
        }
    }
    if o.pad_tokens && ch.chance(1, 10) {
        pad_tokens(ch, &mut ag);
    }
    if o.avoid_insert && ch.chance(1, 3) {
        let nt = ag.tokens.len();
        let k = ch.range(1, 2.min(nt));
        let mut set = BTreeSet::new();
        for _ in 0..k {
            set.insert(ch.pick(nt));
        }
        ag.avoid_insert = set.into_iter().collect();
    }
    ag
}

// ---------------------------------------------------------------------------------------------
// simple text format  <->  AG

/// Parse the simple subset used for the built-in grammars: optional `%left/%right/%nonassoc`
/// lines and `%%`, then `Name: sym sym | sym ;` with tokens always quoted with `'`.
pub fn parse_simple(src: &str) -> AG {
    let mut ag = AG::default();
    let mut tok_idx: BTreeMap<String, usize> = BTreeMap::new();
    let body = if let Some(pos) = src.find("%%") {
        let decl = &src[..pos];
        for line in decl.lines() {
            let line = line.trim();
            let (kind, rest) = if let Some(r) = line.strip_prefix("%left") {
                (Assoc::Left, r)
            } else if let Some(r) = line.strip_prefix("%right") {
                (Assoc::Right, r)
            } else if let Some(r) = line.strip_prefix("%nonassoc") {
                (Assoc::Nonassoc, r)
            } else {
                continue;
            };
            let mut toks = vec![];
            for w in rest.split_whitespace() {
                let n = w.trim_matches('\'').to_string();
                let l = tok_idx.len();
                let i = *tok_idx.entry(n.clone()).or_insert(l);
                if i == ag.tokens.len() {
                    ag.tokens.push(n);
                }
                toks.push(i);
            }
            ag.precs.push(PrecLine { kind, tokens: toks });
        }
        &src[pos + 2..]
    } else {
        src
    };
    // first pass: rule names
    let mut rule_idx: BTreeMap<String, usize> = BTreeMap::new();
    for chunk in body.split(';') {
        if let Some((name, _)) = chunk.split_once(':') {
            let name = name.trim().to_string();
            if !name.is_empty() && !rule_idx.contains_key(&name) {
                rule_idx.insert(name.clone(), ag.rules.len());
                ag.rules.push(AgRule {
                    name,
                    prods: vec![],
                    actiontype: None,
                });
            }
        }
    }
    // second pass. Quoted tokens may contain ';' or ':' or '|', so tokenise properly.
    let chars: Vec<char> = body.chars().collect();
    let mut i = 0;
    let mut words: Vec<(bool, String)> = vec![]; // (quoted, text) ; punctuation as unquoted
    while i < chars.len() {
        let c = chars[i];
        if c.is_whitespace() {
            i += 1;
        } else if c == '\'' {
            let mut j = i + 1;
            let mut s = String::new();
            while j < chars.len() && chars[j] != '\'' {
                s.push(chars[j]);
                j += 1;
            }
            words.push((true, s));
            i = j + 1;
        } else if c == ':' || c == '|' || c == ';' {
            words.push((false, c.to_string()));
            i += 1;
        } else {
            let mut j = i;
            let mut s = String::new();
            while j < chars.len()
                && !chars[j].is_whitespace()
                && !matches!(chars[j], ':' | '|' | ';' | '\'')
            {
                s.push(chars[j]);
                j += 1;
            }
            words.push((false, s));
            i = j;
        }
    }
    // the first-pass split on ';' is unreliable with quoted ';' : rebuild rule list from words
    ag.rules.clear();
    rule_idx.clear();
    let mut k = 0;
    while k < words.len() {
        if !words[k].0 && k + 1 < words.len() && !words[k + 1].0 && words[k + 1].1 == ":" {
            let name = words[k].1.clone();
            if !rule_idx.contains_key(&name) {
                rule_idx.insert(name.clone(), ag.rules.len());
                ag.rules.push(AgRule {
                    name,
                    prods: vec![],
                    actiontype: None,
                });
            }
        }
        k += 1;
    }
    let mut k = 0;
    while k < words.len() {
        // Name :
        let name = words[k].1.clone();
        let r = rule_idx[&name];
        k += 2;
        let mut cur = vec![];
        loop {
            if k >= words.len() {
                ag.rules[r].prods.push(AgProd {
                    syms: cur,
                    prec: None,
                    action: None,
                });
                break;
            }
            let (q, w) = &words[k];
            if !*q && w == "|" {
                ag.rules[r].prods.push(AgProd {
                    syms: std::mem::take(&mut cur),
                    prec: None,
                    action: None,
                });
                k += 1;
            } else if !*q && w == ";" {
                ag.rules[r].prods.push(AgProd {
                    syms: std::mem::take(&mut cur),
                    prec: None,
                    action: None,
                });
                k += 1;
                break;
            } else if *q {
                let l = tok_idx.len();
                let i = *tok_idx.entry(w.clone()).or_insert(l);
                if i == ag.tokens.len() {
                    ag.tokens.push(w.clone());
                }
                cur.push(Sym::T(i));
                k += 1;
            } else {
                cur.push(Sym::R(rule_idx[w]));
                k += 1;
            }
        }
    }
    ag.start = 0;
    ag
}

/// Plain rendering (one rule per line, tokens always single-quoted, `%token` not needed).
pub fn render_simple(ag: &AG) -> String {
    let mut s = String::new();
    let q = |t: usize| format!("'{}'", ag.tokens[t]);
    s.push_str(&format!("%start {}\n", ag.rules[ag.start].name));
    if !ag.avoid_insert.is_empty() {
        s.push_str("%avoid_insert");
        for t in &ag.avoid_insert {
            s.push(' ');
            s.push_str(&q(*t));
        }
        s.push('\n');
    }
    for l in &ag.precs {
        s.push_str(match l.kind {
            Assoc::Left => "%left",
            Assoc::Right => "%right",
            Assoc::Nonassoc => "%nonassoc",
        });
        for t in &l.tokens {
            s.push(' ');
            s.push_str(&q(*t));
        }
        s.push('\n');
    }
    if let Some(e) = ag.expect {
        s.push_str(&format!("%expect {e}\n"));
    }
    if let Some(e) = ag.expect_rr {
        s.push_str(&format!("%expect-rr {e}\n"));
    }
    // tokens that do not occur in a production must be declared with %token
    let mut used = vec![false; ag.tokens.len()];
    for r in &ag.rules {
        for p in &r.prods {
            for sy in &p.syms {
                if let Sym::T(t) = sy {
                    used[*t] = true;
                }
            }
        }
    }
    let undeclared: Vec<usize> = (0..ag.tokens.len()).filter(|t| !used[*t] || ag.declare_all).collect();
    if !undeclared.is_empty() {
        s.push_str("%token");
        for t in undeclared {
            s.push(' ');
            s.push_str(&q(t));
        }
        s.push('\n');
    }
    s.push_str("%%\n");
    for r in &ag.rules {
        s.push_str(&r.name);
        s.push(':');
        for (i, p) in r.prods.iter().enumerate() {
            if i > 0 {
                s.push_str(" |");
            }
            for sy in &p.syms {
                s.push(' ');
                match sy {
                    Sym::T(t) => s.push_str(&q(*t)),
                    Sym::R(x) => s.push_str(&ag.rules[*x].name),
                }
            }
            if let Some(t) = p.prec {
                s.push_str(" %prec ");
                s.push_str(&q(t));
            }
        }
        s.push_str(" ;\n");
    }
    s
}

//! Token sequences for a given AG: sentences from random derivations, near misses, random
//! strings, bounded-exhaustive enumeration. Tokens are AG token indices.

use super::choices::Choices;
use super::grammar::{AG, Sym};
use crate::refimpl::analyses::{INF, min_costs};

/// Random derivation from `rule`; productions are chosen at random while the budget lasts and by
/// least derivation length afterwards. Returns `None` if the rule is unproductive.
pub fn gen_sentence_from(ch: &mut Choices, ag: &AG, rule: usize, max_len: usize) -> Option<Vec<usize>> {
    let unit = vec![1u8; ag.tokens.len()];
    let mc = min_costs(ag, &unit);
    if mc[rule] >= INF {
        return None;
    }
    let prod_cost = |r: usize, p: usize| -> u64 {
        let mut s = 0u64;
        for sy in &ag.rules[r].prods[p].syms {
            s = s.saturating_add(match sy {
                Sym::T(_) => 1,
                Sym::R(j) => mc[*j],
            });
        }
        s.min(INF)
    };
    let mut out = vec![];
    // explicit stack of symbols still to expand (reversed)
    let mut stack = vec![Sym::R(rule)];
    let mut steps = 0usize;
    while let Some(s) = stack.pop() {
        match s {
            Sym::T(t) => out.push(t),
            Sym::R(r) => {
                steps += 1;
                let usable: Vec<usize> = (0..ag.rules[r].prods.len())
                    .filter(|p| prod_cost(r, *p) < INF)
                    .collect();
                // pending minimal length of what is already on the stack
                let pending: u64 = stack
                    .iter()
                    .map(|x| match x {
                        Sym::T(_) => 1,
                        Sym::R(j) => mc[*j],
                    })
                    .sum();
                let budget_left =
                    (out.len() as u64 + pending) < max_len as u64 && steps < 4 * max_len + 8;
                let p = if budget_left {
                    *ch.choose(&usable)
                } else {
                    // cheapest; ties broken by fewest rule symbols (a unit cycle A: A | 'a' must not
                    // be followed forever), then by first
                    *usable
                        .iter()
                        .min_by_key(|p| {
                            (
                                prod_cost(r, **p),
                                ag.rules[r].prods[**p].syms.iter().filter(|s| matches!(s, Sym::R(_))).count(),
                            )
                        })
                        .unwrap()
                };
                if steps > 40 * max_len + 400 {
                    // derivation cycles can still trap the minimal expansion: give up (the
                    // oracle labels every input, so a non-sentence is fine)
                    break;
                }
                for sy in ag.rules[r].prods[p].syms.iter().rev() {
                    stack.push(*sy);
                }
            }
        }
        if out.len() > 4 * max_len + 16 {
            // cannot happen with minimal expansion unless min lengths are large; bail out
            break;
        }
    }
    Some(out)
}

pub fn gen_sentence(ch: &mut Choices, ag: &AG, max_len: usize) -> Option<Vec<usize>> {
    gen_sentence_from(ch, ag, ag.start, max_len)
}

pub fn mutate_input(ch: &mut Choices, ag: &AG, input: &mut Vec<usize>, edits: usize) {
    let nt = ag.tokens.len();
    for _ in 0..edits {
        let n = input.len();
        match ch.pick(6) {
            0 if n > 0 => {
                let i = ch.pick(n);
                input.remove(i);
            }
            1 => {
                let i = ch.pick(n + 1);
                input.insert(i, ch.pick(nt));
            }
            2 if n > 0 => {
                let i = ch.pick(n);
                input[i] = ch.pick(nt);
            }
            3 if n > 1 => {
                let i = ch.pick(n - 1);
                input.swap(i, i + 1);
            }
            4 if n > 0 => {
                let i = ch.pick(n);
                input.truncate(i);
            }
            5 if n > 0 => {
                let i = ch.pick(n);
                let l = ch.range(1, 3).min(n - i);
                let chunk: Vec<usize> = input[i..i + l].to_vec();
                for (k, t) in chunk.into_iter().enumerate() {
                    input.insert(i + l + k, t);
                }
            }
            _ => {
                let i = ch.pick(n + 1);
                input.insert(i, ch.pick(nt));
            }
        }
    }
}

pub fn gen_random_string(ch: &mut Choices, ag: &AG, max_len: usize) -> Vec<usize> {
    let n = ch.range(0, max_len);
    (0..n).map(|_| ch.pick(ag.tokens.len())).collect()
}

/// One input of a random class: 0 sentence, 1 near miss (1-4 edits), 2 random string.
pub fn gen_input(ch: &mut Choices, ag: &AG, max_len: usize, weights: &[usize; 3]) -> Vec<usize> {
    match ch.weighted(weights) {
        0 => gen_sentence(ch, ag, max_len).unwrap_or_default(),
        1 => {
            let mut s = gen_sentence(ch, ag, max_len).unwrap_or_default();
            let e = ch.range(1, 4);
            mutate_input(ch, ag, &mut s, e);
            s.truncate(max_len + 4);
            s
        }
        _ => gen_random_string(ch, ag, max_len),
    }
}

/// All strings over the alphabet up to length `k` (caller bounds alphabet^k).
pub fn all_strings(nt: usize, k: usize) -> Vec<Vec<usize>> {
    let mut out = vec![vec![]];
    let mut frontier = vec![vec![]];
    for _ in 0..k {
        let mut next = vec![];
        for s in &frontier {
            for t in 0..nt {
                let mut s2: Vec<usize> = s.clone();
                s2.push(t);
                next.push(s2);
            }
        }
        out.extend(next.iter().cloned());
        frontier = next;
    }
    out
}

pub mod choices;
pub mod grammar;
pub mod inputs;
pub mod lexspec;
pub mod yrender;

//! Choice stream: every random decision of a case is one `u32` of the stream.
//! Mapping is monotone (smaller raw value => lower index => "simpler"), running off
//! the end yields 0, so proptest's shrinking (delete elements, shrink values to 0)
//! always moves towards simpler cases.

pub struct Choices<'a> {
    data: &'a [u32],
    pos: usize,
}

impl<'a> Choices<'a> {
    pub fn new(data: &'a [u32]) -> Self {
        Choices { data, pos: 0 }
    }

    pub fn from_bytes(bytes: &[u8]) -> Vec<u32> {
        bytes
            .chunks(4)
            .map(|c| {
                let mut b = [0u8; 4];
                b[..c.len()].copy_from_slice(c);
                u32::from_le_bytes(b)
            })
            .collect()
    }

    pub fn consumed(&self) -> usize {
        self.pos
    }

    pub fn exhausted(&self) -> bool {
        self.pos >= self.data.len()
    }

    pub fn raw(&mut self) -> u32 {
        let v = self.data.get(self.pos).copied().unwrap_or(0);
        self.pos += 1;
        v
    }

    /// Uniform index in `0..n` (n >= 1), monotone in the raw value.
    pub fn pick(&mut self, n: usize) -> usize {
        debug_assert!(n >= 1);
        if n <= 1 {
            // still consume, so that the stream layout does not depend on n
            self.raw();
            return 0;
        }
        ((self.raw() as u64 * n as u64) >> 32) as usize
    }

    /// Uniform in `lo..=hi`.
    pub fn range(&mut self, lo: usize, hi: usize) -> usize {
        debug_assert!(hi >= lo);
        lo + self.pick(hi - lo + 1)
    }

    /// True with probability num/den; raw value 0 gives false.
    pub fn chance(&mut self, num: usize, den: usize) -> bool {
        let v = self.pick(den);
        v >= den - num.min(den)
    }

    /// Index drawn according to integer weights; index 0 is the "simplest".
    pub fn weighted(&mut self, weights: &[usize]) -> usize {
        let total: usize = weights.iter().sum();
        let mut v = self.pick(total.max(1));
        for (i, w) in weights.iter().enumerate() {
            if v < *w {
                return i;
            }
            v -= *w;
        }
        weights.len() - 1
    }

    pub fn choose<'b, T>(&mut self, items: &'b [T]) -> &'b T {
        &items[self.pick(items.len())]
    }
}

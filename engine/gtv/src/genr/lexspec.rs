//! Abstract lexer specifications (AL): regex AST, start states, rules, flags; rendering to `.l`
//! text with a layout map; reference regex strings built from the AST (never from lrlex's
//! rewritten string).

use super::choices::Choices;
use serde::{Deserialize, Serialize};

#[derive(Serialize, Deserialize, Clone, Debug, PartialEq)]
pub enum Re {
    /// literal character; `esc` = written as backslash + char
    Lit { c: char, esc: bool },
    /// escape passed through to the regex engine as written (`\n`, `\x41`, `\d`, `\101`, ...)
    Esc(String),
    /// `\b`: word boundary, or backspace under posix_escapes
    SlashB,
    Dot,
    Class { neg: bool, items: Vec<ClassItem> },
    Cat(Vec<Re>),
    Alt(Vec<Re>),
    Star(Box<Re>),
    Plus(Box<Re>),
    Opt(Box<Re>),
    Rep(Box<Re>, u8, u8),
}

#[derive(Serialize, Deserialize, Clone, Debug, PartialEq)]
pub enum ClassItem {
    Ch(char),
    Range(char, char),
    /// a backslash-escaped character inside the class: `\-`, `\&`, `\~`, `\]`, `\^` denote the
    /// character itself (between two letters `a\-c` is three characters, not a range)
    Esc(char),
}

#[derive(Serialize, Deserialize, Clone, Copy, Debug, PartialEq, Eq)]
pub enum Op {
    Replace,
    Push,
    Pop,
}

#[derive(Serialize, Deserialize, Clone, Debug, PartialEq)]
pub struct AlRule {
    /// start-state ids the rule is restricted to (0 = INITIAL); empty = unqualified
    pub states: Vec<usize>,
    pub re: Re,
    pub name: Option<String>,
    pub target: Option<(usize, Op)>,
}

#[derive(Serialize, Deserialize, Clone, Debug, PartialEq, Default)]
pub struct AlFlags {
    pub dot_matches_new_line: Option<bool>,
    pub multi_line: Option<bool>,
    pub octal: Option<bool>,
    pub posix_escapes: Option<bool>,
    pub allow_wholeline_comments: Option<bool>,
    pub case_insensitive: Option<bool>,
    #[serde(default)]
    pub swap_greed: Option<bool>,
    /// only ever set for specifications whose expressions contain no blank and no '#', where
    /// the flag must not change anything
    #[serde(default)]
    pub ignore_whitespace: Option<bool>,
    /// limits of the regex engine: far below (64) or far above (10 MB) what any generated
    /// expression needs, never near the boundary
    #[serde(default)]
    pub size_limit: Option<usize>,
    #[serde(default)]
    pub dfa_size_limit: Option<usize>,
    #[serde(default)]
    pub nest_limit: Option<u32>,
    #[serde(default)]
    pub unicode: Option<bool>,
}

impl AlFlags {
    pub fn num_entries(&self) -> Vec<(&'static str, usize)> {
        let mut v = vec![];
        if let Some(n) = self.size_limit {
            v.push(("size_limit", n));
        }
        if let Some(n) = self.dfa_size_limit {
            v.push(("dfa_size_limit", n));
        }
        if let Some(n) = self.nest_limit {
            v.push(("nest_limit", n as usize));
        }
        v
    }
    pub fn eff_swap_greed(&self) -> bool {
        self.swap_greed.unwrap_or(false)
    }
    pub fn eff_dot_nl(&self) -> bool {
        self.dot_matches_new_line.unwrap_or(true)
    }
    pub fn eff_multi_line(&self) -> bool {
        self.multi_line.unwrap_or(true)
    }
    pub fn eff_octal(&self) -> bool {
        self.octal.unwrap_or(true)
    }
    pub fn eff_posix(&self) -> bool {
        self.posix_escapes.unwrap_or(false)
    }
    pub fn eff_comments(&self) -> bool {
        self.allow_wholeline_comments.unwrap_or(false)
    }
    pub fn eff_ci(&self) -> bool {
        self.case_insensitive.unwrap_or(false)
    }
    pub fn entries(&self) -> Vec<(&'static str, bool)> {
        let mut v = vec![];
        if let Some(b) = self.dot_matches_new_line {
            v.push(("dot_matches_new_line", b));
        }
        if let Some(b) = self.multi_line {
            v.push(("multi_line", b));
        }
        if let Some(b) = self.octal {
            v.push(("octal", b));
        }
        if let Some(b) = self.posix_escapes {
            v.push(("posix_escapes", b));
        }
        if let Some(b) = self.allow_wholeline_comments {
            v.push(("allow_wholeline_comments", b));
        }
        if let Some(b) = self.case_insensitive {
            v.push(("case_insensitive", b));
        }
        if let Some(b) = self.swap_greed {
            v.push(("swap_greed", b));
        }
        if let Some(b) = self.ignore_whitespace {
            v.push(("ignore_whitespace", b));
        }
        if let Some(b) = self.unicode {
            v.push(("unicode", b));
        }
        v
    }
}

#[derive(Serialize, Deserialize, Clone, Debug, PartialEq, Default)]
pub struct AL {
    /// declared start states (id = index + 1): (name, exclusive)
    pub states: Vec<(String, bool)>,
    pub rules: Vec<AlRule>,
    pub flags: AlFlags,
}

impl AL {
    pub fn exclusive(&self, id: usize) -> bool {
        id > 0 && self.states[id - 1].1
    }
    pub fn state_name(&self, id: usize) -> &str {
        if id == 0 { "INITIAL" } else { &self.states[id - 1].0 }
    }
}

// ---------------------------------------------------------------------------------------------
// regex rendering

pub fn is_lex_literal_escape(c: char, next: Option<char>) -> bool {
    // mirrors the documented table: \xHH \uHHHH \UHHHHHHHH, digits (octal), a f n r t v \\,
    // p P, d D s S w W, A z
    match c {
        'x' | 'u' | 'U' => next.map(|n| n.is_ascii_hexdigit()).unwrap_or(false),
        '0'..='9' => true,
        'a' | 'f' | 'n' | 'r' | 't' | 'v' | '\\' => true,
        'p' | 'P' | 'd' | 'D' | 's' | 'S' | 'w' | 'W' | 'A' | 'z' | 'b' | 'B' => true,
        _ => false,
    }
}

/// Characters that may be written unescaped as a literal in the `.l` source.
fn plain_ok(c: char) -> bool {
    c.is_alphanumeric() && !c.is_whitespace()
}

/// Characters for the "neither" escape class: `\c` must denote c itself.
pub const NEITHER: &[char] = &['q', 'g', 'é', '漢', '<', '>', '"', '\'', ';', ':', '%', '!', '=', ',', '@', '_'];
pub const META: &[char] = &['.', '+', '*', '?', '(', ')', '|', '[', ']', '{', '}', '^', '$', '#', '&', '-'];

impl Re {
    /// As written in the `.l` file.
    pub fn written(&self) -> String {
        match self {
            Re::Lit { c, esc } => {
                if *esc {
                    format!("\\{c}")
                } else {
                    c.to_string()
                }
            }
            Re::Esc(s) => s.clone(),
            Re::SlashB => "\\b".into(),
            Re::Dot => ".".into(),
            Re::Class { neg, items } => {
                let mut s = String::from("[");
                if *neg {
                    s.push('^');
                }
                for it in items {
                    match it {
                        ClassItem::Ch(c) => s.push(*c),
                        ClassItem::Range(a, b) => {
                            s.push(*a);
                            s.push('-');
                            s.push(*b);
                        }
                        ClassItem::Esc(c) => {
                            s.push('\\');
                            s.push(*c);
                        }
                    }
                }
                s.push(']');
                s
            }
            Re::Cat(v) => v.iter().map(|r| r.written_atom_in_cat()).collect(),
            Re::Alt(v) => format!("({})", v.iter().map(|r| r.written()).collect::<Vec<_>>().join("|")),
            Re::Star(r) => format!("{}*", r.written_atom()),
            Re::Plus(r) => format!("{}+", r.written_atom()),
            Re::Opt(r) => format!("{}?", r.written_atom()),
            Re::Rep(r, a, b) => format!("{}{{{},{}}}", r.written_atom(), a, b),
        }
    }
    fn written_atom(&self) -> String {
        match self {
            Re::Cat(_) => format!("({})", self.written()),
            _ => self.written(),
        }
    }
    fn written_atom_in_cat(&self) -> String {
        self.written()
    }
    /// What the written expression denotes, as a regex-crate pattern built from the AST.
    pub fn reference(&self, flags: &AlFlags) -> String {
        match self {
            Re::Lit { c, .. } => regex::escape(&c.to_string()),
            Re::Esc(s) => s.clone(),
            Re::SlashB => {
                if flags.eff_posix() {
                    "\\x08".into()
                } else {
                    "\\b".into()
                }
            }
            Re::Dot => ".".into(),
            Re::Class { .. } => self.written(),
            Re::Cat(v) => v.iter().map(|r| r.reference_atom_in_cat(flags)).collect(),
            // (groups are written exactly as in the `.l` text - capturing parentheses - because the
            // regex crate does not treat `(..)` and `(?:..)` alike in every case: for
            // `x+x+|x+a.+1` on "xxxxa..1" it prefers the second branch, with a capturing group
            // around the first branch the first; see DESIGN.md, false alarm 19)
            Re::Alt(v) => format!("({})", v.iter().map(|r| r.reference(flags)).collect::<Vec<_>>().join("|")),
            Re::Star(r) => format!("{}*", r.reference_atom(flags)),
            Re::Plus(r) => format!("{}+", r.reference_atom(flags)),
            Re::Opt(r) => format!("{}?", r.reference_atom(flags)),
            Re::Rep(r, a, b) => format!("{}{{{},{}}}", r.reference_atom(flags), a, b),
        }
    }
    /// The pattern for a whole rule: a top-level alternation that the file writes without
    /// parentheses is left without a group here as well.
    pub fn reference_top(&self, flags: &AlFlags, bare: bool) -> String {
        match self {
            Re::Alt(v) if bare => v.iter().map(|r| r.reference(flags)).collect::<Vec<_>>().join("|"),
            _ => self.reference(flags),
        }
    }
    fn reference_atom(&self, flags: &AlFlags) -> String {
        match self {
            Re::Cat(_) => format!("({})", self.reference(flags)),
            _ => self.reference(flags),
        }
    }
    fn reference_atom_in_cat(&self, flags: &AlFlags) -> String {
        self.reference(flags)
    }
    pub fn has_neither_escape(&self) -> bool {
        match self {
            Re::Lit { c, esc } => *esc && NEITHER.contains(c),
            Re::Cat(v) | Re::Alt(v) => v.iter().any(|r| r.has_neither_escape()),
            Re::Star(r) | Re::Plus(r) | Re::Opt(r) | Re::Rep(r, _, _) => r.has_neither_escape(),
            _ => false,
        }
    }
    pub fn mentions(&self, pred: &dyn Fn(&Re) -> bool) -> bool {
        if pred(self) {
            return true;
        }
        match self {
            Re::Cat(v) | Re::Alt(v) => v.iter().any(|r| r.mentions(pred)),
            Re::Star(r) | Re::Plus(r) | Re::Opt(r) | Re::Rep(r, _, _) => r.mentions(pred),
            _ => false,
        }
    }
}

pub const ALPHA: &[char] = &['a', 'b', 'c', '0', '1', 'é', '漢'];
pub const SPACE_LIKE: &[char] = &['\u{a0}', '\u{3000}', '\u{2003}', '\u{1680}'];

fn gen_atom(ch: &mut Choices, flags: &AlFlags, depth: usize) -> Re {
    match ch.weighted(&[10, 3, 3, 2, 2, 2, 1, 1]) {
        0 => Re::Lit {
            // 1/10: a character that is Unicode White_Space but not Pattern_White_Space - not a
            // separator of the format, so an ordinary literal wherever it stands (also last)
            c: if ch.chance(1, 10) { *ch.choose(SPACE_LIKE) } else { *ch.choose(ALPHA) },
            esc: false,
        },
        1 => {
            // class
            let n = ch.range(1, 3);
            let mut items = vec![];
            for k in 0..n {
                if k > 0 && ch.chance(1, 5) {
                    // an escaped class metacharacter between two members
                    items.push(ClassItem::Esc(*ch.choose(&['-', '-', '&', '~', ']', '^'])));
                    items.push(ClassItem::Ch(*ch.choose(&['c', 'b', 'z', '1'])));
                    continue;
                }
                if ch.chance(1, 3) {
                    items.push(if ch.chance(1, 2) {
                        ClassItem::Range('a', 'c')
                    } else {
                        ClassItem::Range('0', '9')
                    });
                } else {
                    items.push(ClassItem::Ch(*ch.choose(ALPHA)));
                }
            }
            Re::Class {
                neg: ch.chance(1, 5),
                items,
            }
        }
        2 => Re::Lit {
            c: *ch.choose(NEITHER),
            esc: true,
        },
        3 => Re::Lit {
            c: *ch.choose(META),
            esc: true,
        },
        4 => {
            // hex escapes in all three forms, digits in either case, first digit a letter or not
            let mut opts = vec![
                "\\n", "\\t", "\\x61", "\\d", "\\w", "\\s", "\\D", "\\x20", "\\u00e9", "\\xE9", "\\xe9", "\\u00E9", "\\u6F22", "\\u6f22", "\\uF900", "\\U00006F22", "\\U000000e9", "\\x7A",
                "\\xAB", "\\uffe9",
            ];
            if flags.eff_octal() {
                opts.push("\\141");
            }
            Re::Esc(ch.choose(&opts).to_string())
        }
        5 => Re::Dot,
        6 => {
            if ch.chance(1, 2) {
                Re::SlashB
            } else {
                // anchors: `^`/`$` mean line start/end or text start/end depending on multi_line
                Re::Esc(ch.choose(&["\\B", "\\A", "\\z", "^", "$", "$"]).to_string())
            }
        }
        _ => {
            if depth > 0 {
                let k = ch.range(2, 3);
                Re::Alt((0..k).map(|_| gen_cat(ch, flags, depth - 1, 2)).collect())
            } else {
                Re::Lit {
                    c: *ch.choose(ALPHA),
                    esc: false,
                }
            }
        }
    }
}

fn gen_cat(ch: &mut Choices, flags: &AlFlags, depth: usize, max: usize) -> Re {
    let n = ch.range(1, max);
    let mut v = vec![];
    for _ in 0..n {
        let a = gen_atom(ch, flags, depth);
        let boundary = matches!(a, Re::SlashB) || matches!(&a, Re::Esc(s) if s == "\\B" || s == "\\A" || s == "\\z" || s == "^" || s == "$");
        v.push(if boundary {
            a
        } else {
            match ch.weighted(&[6, 1, 1, 1, 1]) {
                0 => a,
                1 => Re::Star(Box::new(a)),
                2 => Re::Plus(Box::new(a)),
                3 => Re::Opt(Box::new(a)),
                _ => Re::Rep(Box::new(a), 1, 1 + ch.pick(2) as u8),
            }
        });
    }
    if v.len() == 1 { v.pop().unwrap() } else { Re::Cat(v) }
}

pub fn gen_re(ch: &mut Choices, flags: &AlFlags) -> Re {
    gen_cat(ch, flags, 1, 4)
}

/// Stratum aimed at the start-state stack: 1-3 declared states, single-letter rules that push,
/// pop or replace (pushing the state that is already on top included), and one probe rule per
/// state that emits a distinct token, so that any slip in the stack shows up in the lexemes.
pub fn gen_al_states(ch: &mut Choices) -> AL {
    let mut al = AL::default();
    let ns = ch.range(1, 3);
    let names = ["A", "B", "C"];
    for i in 0..ns {
        al.states.push((names[i].to_string(), ch.chance(2, 3)));
    }
    let letters = ['a', 'b', 'c', 'd', 'e', 'f', 'g', 'h', 'i', 'j', 'k', 'l'];
    let mut li = 0;
    let nops = ch.range(3, 8);
    for _ in 0..nops {
        if li >= letters.len() {
            break;
        }
        let from = ch.pick(ns + 1);
        let to = if ch.chance(1, 3) { from } else { ch.pick(ns + 1) };
        let op = *ch.choose(&[Op::Push, Op::Push, Op::Pop, Op::Replace]);
        // the same letter may be bound in several states
        let letter = if li > 0 && ch.chance(1, 4) { letters[ch.pick(li)] } else { li += 1; letters[li - 1] };
        al.rules.push(AlRule {
            states: vec![from],
            re: Re::Lit { c: letter, esc: false },
            name: if ch.chance(1, 3) { Some(format!("op{}", al.rules.len())) } else { None },
            target: Some((to, op)),
        });
    }
    for st in 0..=ns {
        al.rules.push(AlRule {
            states: vec![st],
            re: Re::Lit { c: 'x', esc: false },
            name: Some(format!("IN{st}")),
            target: None,
        });
    }
    if ch.chance(1, 2) {
        // an unqualified rule: active in INITIAL and inclusive states only
        al.rules.push(AlRule {
            states: vec![],
            re: Re::Lit { c: 'y', esc: false },
            name: Some("ANY".into()),
            target: None,
        });
    }
    al
}

pub fn gen_al(ch: &mut Choices, max_rules: usize) -> AL {
    if ch.chance(1, 4) {
        return gen_al_states(ch);
    }
    let mut al = AL::default();
    // flags
    let pick_flag = |ch: &mut Choices| -> Option<bool> {
        match ch.weighted(&[6, 1, 1]) {
            0 => None,
            1 => Some(true),
            _ => Some(false),
        }
    };
    al.flags.dot_matches_new_line = pick_flag(ch);
    al.flags.multi_line = pick_flag(ch);
    al.flags.octal = pick_flag(ch);
    al.flags.posix_escapes = pick_flag(ch);
    al.flags.allow_wholeline_comments = pick_flag(ch);
    al.flags.case_insensitive = pick_flag(ch);
    al.flags.swap_greed = pick_flag(ch);
    al.flags.size_limit = *ch.choose(&[None, None, None, None, None, None, None, None, Some(10_000_000), Some(10_000_000), Some(10_000_000), Some(64)]);
    al.flags.dfa_size_limit = *ch.choose(&[None, None, None, None, Some(10_000_000), Some(64)]);
    al.flags.nest_limit = *ch.choose(&[None, None, None, None, None, None, None, None, None, Some(1000), Some(1000), Some(3)]);
    al.flags.unicode = *ch.choose(&[None, None, None, None, None, None, None, None, None, Some(true), Some(true), Some(false)]);
    let want_ignore_ws = pick_flag(ch);
    let ns = ch.weighted(&[3, 3, 2, 1]);
    // names that overlap with each other and with the directive words (%s, %x, %start, ...)
    let mut names = vec!["S1", "x2", "St.a_3", "Q", "s", "x", "S", "X", "t", "art", "tart", "a", "state", "xx", "e", "xc"];
    for _ in 0..ns {
        let n = names.remove(ch.pick(names.len()));
        al.states.push((n.to_string(), ch.chance(1, 2)));
    }
    let nr = ch.range(1, max_rules);
    // rules come in groups sharing a prefix so that ties and longest-match decisions occur
    let mut shared: Option<Re> = None;
    for i in 0..nr {
        let mut re = gen_re(ch, &al.flags);
        if let Some(p) = &shared {
            if ch.chance(1, 2) {
                re = match ch.pick(3) {
                    0 => p.clone(),
                    1 => Re::Cat(vec![p.clone(), re]),
                    _ => Re::Alt(vec![p.clone(), re]),
                };
            }
        }
        if ch.chance(1, 3) {
            shared = Some(re.clone());
        }
        let states = if ns > 0 && ch.chance(1, 3) {
            let k = ch.range(1, 2);
            let mut v: Vec<usize> = (0..k).map(|_| ch.pick(ns + 1)).collect();
            v.dedup();
            v
        } else {
            vec![]
        };
        // 1/10: an unescaped blank inside the expression (everything before the last blank of the
        // line is the expression); never last (that blank would separate expression and name),
        // first only after a <..> prefix (a line cannot begin with a blank)
        if ch.chance(1, 10) {
            if let Re::Cat(v) = &mut re {
                if v.len() >= 2 {
                    let lo = if states.is_empty() { 1 } else { 0 };
                    let k = lo + ch.pick(v.len() - lo);
                    v.insert(k, Re::Lit { c: if ch.chance(1, 4) { '\t' } else { ' ' }, esc: false });
                }
            }
        }
        let target = if ns > 0 && ch.chance(1, 3) {
            Some((
                ch.pick(ns + 1),
                *ch.choose(&[Op::Push, Op::Pop, Op::Replace, Op::Push]),
            ))
        } else {
            None
        };
        let name = if ch.chance(1, 5) {
            None
        } else {
            // (some names begin or end with a quote character or hold a `>`, which also closes a target state: the name is
            // what stands between the first and the last character of the quoted word)
            Some(format!("{}{}{}", ch.choose(&["T", "tok", "é", "N_", "T", "tok", "é", "N_", "'", ">", "=>"]), i, ch.choose(&["", "", "", "", "", "", "", "", "", "\"", ">"])))
        };
        al.rules.push(AlRule {
            states,
            re,
            name,
            target,
        });
    }
    // x-mode: only where it is a no-op on the expressions (no blank, no '#')
    if al.rules.iter().all(|r| !r.re.reference(&al.flags).contains(|c: char| c.is_whitespace() || c == '#')) {
        al.flags.ignore_whitespace = want_ignore_ws;
    }
    al
}

// ---------------------------------------------------------------------------------------------
// rendering with layout map

#[derive(Serialize, Deserialize, Clone, Debug, Default, PartialEq)]
pub struct Layout {
    /// byte range of each rule's name (without quotes); zero-length at the name position for
    /// skip rules
    pub rule_names: Vec<(usize, usize)>,
    /// byte range of each declared start state's name
    pub state_names: Vec<(usize, usize)>,
    /// length of the `%grmtools{..}` section (0 if absent)
    pub header_len: usize,
}

#[derive(Serialize, Deserialize, Clone, Debug, Default, PartialEq)]
pub struct RenderOpts {
    /// render the flags into a %grmtools section
    pub header: bool,
    /// padding lines / spaces inside the header
    pub header_pad: usize,
    pub double_quotes: Vec<bool>,
    pub skip_style: Vec<u8>,
    pub blank_lines: Vec<bool>,
    pub comment_lines: Vec<bool>,
    pub tab_sep: Vec<bool>,
    pub trailing_space: Vec<bool>,
    pub states_one_line: bool,
    /// write a top-level alternation of rule i without parentheses
    #[serde(default)]
    pub bare_alt: Vec<bool>,
    /// spelling of the %s/%x directive words (index into DIRECTIVES_*, rotated per line)
    #[serde(default)]
    pub directive_variant: usize,
    /// layout before the k-th line of the declarations section (the last entry is for `%%`):
    /// bit 0 = an empty line first, bit 1 = a line of blanks first, bit 2 = the line is indented
    /// by spaces, bit 3 = by a tab
    #[serde(default)]
    pub decl_layout: Vec<u8>,
    /// spelling of the header's keys (they are case-insensitive): 0 = lower case; otherwise key i
    /// is written as is, in upper case or with capitalised words, rotating from this value
    #[serde(default)]
    pub key_case: u8,
    /// what ends every line of the file (index into LINE_TERMS)
    #[serde(default)]
    pub line_term: usize,
    /// separators between the names of a start-state declaration with several names (index into
    /// STATE_SEPS, rotated): any Pattern_White_Space that does not end the line
    #[serde(default)]
    pub state_sep: usize,
}

// (exactly one blank character: the implementation splits at every single white-space character
// and rejects the empty "name" between two of them)
pub const STATE_SEPS: &[&str] = &[" ", " ", "\t", "\u{85}", "\u{200e}", "\u{200f}"];

/// Line terminators of the format: LF, CR LF, a lone CR, LINE SEPARATOR, PARAGRAPH SEPARATOR, VT.
pub const LINE_TERMS: &[&str] = &["\n", "\r\n", "\r", "\u{2028}", "\u{2029}", "\u{b}"];

pub const DIRECTIVES_INCL: &[&str] = &["%s", "%S", "%start", "%state", "%Sx9", "%s"];
pub const DIRECTIVES_EXCL: &[&str] = &["%x", "%X", "%xclusive", "%xstart", "%Xs", "%x"];

impl RenderOpts {
    pub fn plain(n: usize) -> Self {
        RenderOpts {
            header: true,
            header_pad: 0,
            double_quotes: vec![false; n],
            skip_style: vec![0; n],
            blank_lines: vec![false; n],
            comment_lines: vec![false; n],
            tab_sep: vec![false; n],
            trailing_space: vec![false; n],
            states_one_line: true,
            bare_alt: vec![false; n],
            directive_variant: 0,
            decl_layout: vec![],
            state_sep: 0,
            key_case: 0,
            line_term: 0,
        }
    }
    pub fn generate(ch: &mut Choices, n: usize, header: bool) -> Self {
        RenderOpts {
            header,
            header_pad: ch.weighted(&[3, 1, 1, 1]),
            double_quotes: (0..n).map(|_| ch.chance(1, 3)).collect(),
            skip_style: (0..n).map(|_| ch.pick(3) as u8).collect(),
            blank_lines: (0..n).map(|_| ch.chance(1, 5)).collect(),
            comment_lines: (0..n).map(|_| ch.chance(1, 5)).collect(),
            tab_sep: (0..n).map(|_| ch.chance(1, 4)).collect(),
            trailing_space: (0..n).map(|_| ch.chance(1, 5)).collect(),
            states_one_line: ch.chance(1, 2),
            bare_alt: (0..n).map(|_| ch.chance(1, 2)).collect(),
            directive_variant: ch.pick(6),
            decl_layout: (0..6).map(|_| if ch.chance(1, 3) { 1 + ch.pick(15) as u8 } else { 0 }).collect(),
            state_sep: ch.pick(STATE_SEPS.len()),
            key_case: ch.weighted(&[3, 1, 1, 1]) as u8,
            line_term: ch.weighted(&[8, 2, 2, 1, 1, 1]),
        }
    }
}

/// Blank lines and indentation in the declarations section (legal white space).
fn decl_prefix(o: &RenderOpts, k: usize, s: &mut String) {
    let b = o.decl_layout.get(k).copied().unwrap_or(0);
    if b & 1 != 0 {
        s.push('\n');
    }
    if b & 2 != 0 {
        s.push_str("  \t \n");
    }
    if b & 4 != 0 {
        s.push_str("  ");
    }
    if b & 8 != 0 {
        s.push('\t');
    }
}

pub fn render(al: &AL, o: &RenderOpts) -> (String, Layout) {
    let mut s = String::new();
    let mut lay = Layout::default();
    let flags: Vec<(String, bool)> = al
        .flags
        .entries()
        .into_iter()
        .map(|(k, v)| (k.to_string(), v))
        .chain(al.flags.num_entries().into_iter().map(|(k, n)| (format!("{k}: {n}"), true)))
        .collect();
    if o.header && !flags.is_empty() {
        s.push_str("%grmtools");
        if o.header_pad >= 2 {
            s.push(' ');
        }
        s.push('{');
        for (i, (k, v)) in flags.iter().enumerate() {
            if o.header_pad >= 1 {
                s.push_str("\n    ");
            }
            if !*v {
                s.push('!');
            }
            let (name, rest) = k.split_at(k.find(':').unwrap_or(k.len()));
            match if o.key_case == 0 { 0 } else { (o.key_case as usize + i) % 3 } {
                1 => s.push_str(&name.to_ascii_uppercase()),
                2 => {
                    let mut up = true;
                    for c in name.chars() {
                        s.push(if up { c.to_ascii_uppercase() } else { c });
                        up = c == '_';
                    }
                }
                _ => s.push_str(name),
            }
            s.push_str(rest);
            if i + 1 < flags.len() || o.header_pad == 3 {
                s.push(',');
            }
            if o.header_pad == 0 {
                s.push(' ');
            }
        }
        if o.header_pad >= 1 {
            s.push('\n');
        }
        s.push('}');
        lay.header_len = s.len();
        s.push('\n');
    }
    let comments = al.flags.eff_comments();
    // declarations
    if o.states_one_line {
        // group by kind, keeping ids in declaration order requires one line per kind change
        let mut i = 0;
        let mut line = 0;
        while i < al.states.len() {
            let excl = al.states[i].1;
            let dv = (o.directive_variant + i) % 6;
            decl_prefix(o, line, &mut s);
            line += 1;
            s.push_str(if excl { DIRECTIVES_EXCL[dv] } else { DIRECTIVES_INCL[dv] });
            let mut first = true;
            while i < al.states.len() && al.states[i].1 == excl {
                // (any one blank character also between the directive word and the first name)
                s.push_str(if first { STATE_SEPS[(o.state_sep + 2 * i + 1) % STATE_SEPS.len()] } else { STATE_SEPS[(o.state_sep + i) % STATE_SEPS.len()] });
                first = false;
                let st = s.len();
                s.push_str(&al.states[i].0);
                lay.state_names.push((st, s.len()));
                i += 1;
            }
            s.push('\n');
        }
    } else {
        for (k, (name, excl)) in al.states.iter().enumerate() {
            let dv = (o.directive_variant + 1 + k) % 6;
            decl_prefix(o, k, &mut s);
            s.push_str(if *excl { DIRECTIVES_EXCL[dv] } else { DIRECTIVES_INCL[dv] });
            s.push_str("\t ");
            let st = s.len();
            s.push_str(name);
            lay.state_names.push((st, s.len()));
            s.push('\n');
        }
    }
    if !al.states.is_empty() {
        decl_prefix(o, 5, &mut s);
    }
    s.push_str("%%\n");
    for (i, r) in al.rules.iter().enumerate() {
        if o.blank_lines.get(i).copied().unwrap_or(false) {
            s.push('\n');
        }
        if comments && o.comment_lines.get(i).copied().unwrap_or(false) {
            s.push_str("// a comment 'X' <S>\n");
        }
        if !r.states.is_empty() {
            s.push('<');
            s.push_str(
                &r.states
                    .iter()
                    .map(|id| al.state_name(*id).to_string())
                    .collect::<Vec<_>>()
                    .join(","),
            );
            s.push('>');
        }
        // a top-level alternation may be written without its parentheses
        match &r.re {
            Re::Alt(v) if o.bare_alt.get(i).copied().unwrap_or(false) => {
                s.push_str(&v.iter().map(|x| x.written()).collect::<Vec<_>>().join("|"));
            }
            _ => s.push_str(&r.re.written()),
        }
        s.push(if o.tab_sep.get(i).copied().unwrap_or(false) { '\t' } else { ' ' });
        if let Some((id, op)) = &r.target {
            s.push('<');
            match op {
                Op::Push => s.push('+'),
                Op::Pop => s.push('-'),
                Op::Replace => {}
            }
            s.push_str(al.state_name(*id));
            s.push('>');
        }
        match &r.name {
            Some(n) => {
                let q = if o.double_quotes.get(i).copied().unwrap_or(false) { '"' } else { '\'' };
                s.push(q);
                let st = s.len();
                s.push_str(n);
                lay.rule_names.push((st, s.len()));
                s.push(q);
            }
            None => {
                let st = s.len();
                lay.rule_names.push((st, st));
                s.push_str(match o.skip_style.get(i).copied().unwrap_or(0) {
                    0 => ";",
                    1 => "\"\"",
                    _ => "''",
                });
            }
        }
        if o.trailing_space.get(i).copied().unwrap_or(false) {
            s.push_str("  ");
        }
        s.push('\n');
    }
    // every line end of the file becomes the chosen terminator (the renderer never writes a raw
    // newline inside a line); the recorded offsets move accordingly
    let term = LINE_TERMS[o.line_term % LINE_TERMS.len()];
    if term != "\n" {
        let shift = |off: usize| off + s[..off].matches('\n').count() * (term.len() - 1);
        for r in lay.rule_names.iter_mut().chain(lay.state_names.iter_mut()) {
            *r = (shift(r.0), shift(r.1));
        }
        lay.header_len = shift(lay.header_len);
        s = s.replace('\n', term);
    }
    (s, lay)
}

//! One compile-time build step (CTParserBuilder + CTLexerBuilder) described by a JSON spec.
//! Always run in a process of its own (`gtv ctstep`): the builders refuse a second build to the
//! same output path within one process, and cargo also uses one process per build.

use cfgrammar::yacc::{YaccKind, YaccOriginalActionKind};
use lrlex::{CTLexerBuilder, DefaultLexerTypes};
use lrpar::{CTParserBuilder, RecoveryKind};
use serde::{Deserialize, Serialize};
use std::path::PathBuf;

#[derive(Serialize, Deserialize, Clone, Debug, Default, PartialEq)]
pub struct CtSpec {
    pub grammar_path: String,
    pub lexer_path: String,
    pub parser_out: String,
    pub lexer_out: String,
    /// "Grmtools" | "Generic" | "NoAction" | "UserAction" ; None = from the %grmtools section
    pub yacckind: Option<String>,
    /// "CPCTPlus" | "None"
    pub recoverer: Option<String>,
    /// "Private" | "Public" | "PublicCrate" | "PublicSuper" | "PublicSelf" | "PublicIn:<path>"
    pub visibility: Option<String>,
    /// 2015 | 2018 | 2021
    pub edition: Option<u32>,
    /// "Fixed" | "Variable"
    pub serialisation: Option<String>,
    pub parser_mod_name: Option<String>,
    pub lexer_mod_name: Option<String>,
    pub error_on_conflicts: Option<bool>,
    pub warnings_are_errors: Option<bool>,
    pub show_warnings: Option<bool>,
    pub lex_dot_matches_new_line: Option<bool>,
    pub lex_case_insensitive: Option<bool>,
    pub lex_posix_escapes: Option<bool>,
    pub lex_allow_wholeline_comments: Option<bool>,
    /// tokens of the grammar without a lexer rule are an error (the builder's default)
    #[serde(default)]
    pub strict_terms_in_lexer: Option<bool>,
    /// lexer rules naming a token the grammar lacks are an error (show_warnings + warnings_are_errors)
    #[serde(default)]
    pub strict_tokens_in_parser: Option<bool>,
    /// one call: CTLexerBuilder::lrpar_config(..).build() instead of the two builders in turn
    #[serde(default)]
    pub combined: Option<bool>,
    /// lexer only, with this user-supplied rule_ids_map (names may share an id)
    #[serde(default)]
    pub lexer_only_rule_ids: Option<Vec<(String, u32)>>,
    /// "u32" (default) | "u16" | "u8": the storage type of the builders' lexer types
    #[serde(default)]
    pub storaget: Option<String>,
    /// with `lexer_only_rule_ids`: also generate the token map module `<token_map_dir>/<mod>.rs`
    /// from the same ids with CTTokenMapBuilder (what users of a hand-written lexer do)
    #[serde(default)]
    pub token_map_mod: Option<String>,
    #[serde(default)]
    pub token_map_dir: Option<String>,
}

#[derive(Serialize, Deserialize, Clone, Debug, Default, PartialEq)]
pub struct CtResult {
    /// outcome of the CTTokenMapBuilder build, if one was asked for
    #[serde(default)]
    pub token_map: Option<String>,
    pub parser_ok: bool,
    pub parser_error: Option<String>,
    pub regenerated: Option<bool>,
    pub lexer_ok: bool,
    pub lexer_error: Option<String>,
    pub panicked: Option<String>,
    #[serde(default)]
    pub combined: bool,
}

fn kind_of(s: &str) -> YaccKind {
    match s {
        "Grmtools" => YaccKind::Grmtools,
        "NoAction" => YaccKind::Original(YaccOriginalActionKind::NoAction),
        "UserAction" => YaccKind::Original(YaccOriginalActionKind::UserAction),
        _ => YaccKind::Original(YaccOriginalActionKind::GenericParseTree),
    }
}

/// The builders are generic over the storage type through their lexer types: one copy of the
/// step per width.
macro_rules! ct_impl {
    ($m:ident, $t:ty) => {
        pub mod $m {
            use super::*;
            fn parser_opts<'a>(mut pb: CTParserBuilder<'a, DefaultLexerTypes<$t>>, spec: &CtSpec) -> CTParserBuilder<'a, DefaultLexerTypes<$t>> {
                pb = pb.grammar_path(PathBuf::from(&spec.grammar_path)).output_path(PathBuf::from(&spec.parser_out));
                if let Some(k) = &spec.yacckind {
                    pb = pb.yacckind(kind_of(k));
                }
                if let Some(r) = &spec.recoverer {
                    pb = pb.recoverer(if r == "None" { RecoveryKind::None } else { RecoveryKind::CPCTPlus });
                }
                if let Some(v) = &spec.visibility {
                    pb = pb.visibility(match v.as_str() {
                        "Public" => lrpar::Visibility::Public,
                        "PublicCrate" => lrpar::Visibility::PublicCrate,
                        "PublicSuper" => lrpar::Visibility::PublicSuper,
                        "PublicSelf" => lrpar::Visibility::PublicSelf,
                        v if v.starts_with("PublicIn:") => lrpar::Visibility::PublicIn(v["PublicIn:".len()..].to_string()),
                        _ => lrpar::Visibility::Private,
                    });
                }
                if let Some(e) = spec.edition {
                    pb = pb.rust_edition(match e {
                        2015 => lrpar::RustEdition::Rust2015,
                        2018 => lrpar::RustEdition::Rust2018,
                        _ => lrpar::RustEdition::Rust2021,
                    });
                }
                if let Some(s) = &spec.serialisation {
                    pb = pb.serialisation_format(if s == "Fixed" {
                        lrpar::ctbuilder::SerialisationFormat::FixedSizeInteger
                    } else {
                        lrpar::ctbuilder::SerialisationFormat::VariableSizedInteger
                    });
                }
                if let Some(m) = &spec.parser_mod_name {
                    pb = pb.mod_name(Box::leak(m.clone().into_boxed_str()));
                }
                if let Some(b) = spec.error_on_conflicts {
                    pb = pb.error_on_conflicts(b);
                }
                if let Some(b) = spec.warnings_are_errors {
                    pb = pb.warnings_are_errors(b);
                }
                pb.show_warnings(spec.show_warnings.unwrap_or(false))
            }

            fn lexer_opts<'a>(mut lb: CTLexerBuilder<'a, DefaultLexerTypes<$t>>, spec: &CtSpec) -> CTLexerBuilder<'a, DefaultLexerTypes<$t>> {
                lb = lb.lexer_path(PathBuf::from(&spec.lexer_path)).output_path(PathBuf::from(&spec.lexer_out));
                if let Some(m) = &spec.lexer_mod_name {
                    lb = lb.mod_name(Box::leak(m.clone().into_boxed_str()));
                }
                if let Some(v) = &spec.visibility {
                    lb = lb.visibility(match v.as_str() {
                        "Public" => lrlex::Visibility::Public,
                        "PublicCrate" => lrlex::Visibility::PublicCrate,
                        "PublicSuper" => lrlex::Visibility::PublicSuper,
                        "PublicSelf" => lrlex::Visibility::PublicSelf,
                        v if v.starts_with("PublicIn:") => lrlex::Visibility::PublicIn(v["PublicIn:".len()..].to_string()),
                        _ => lrlex::Visibility::Private,
                    });
                }
                if let Some(e) = spec.edition {
                    lb = lb.rust_edition(match e {
                        2015 => lrlex::RustEdition::Rust2015,
                        2018 => lrlex::RustEdition::Rust2018,
                        _ => lrlex::RustEdition::Rust2021,
                    });
                }
                if let Some(b) = spec.lex_dot_matches_new_line {
                    lb = lb.dot_matches_new_line(b);
                }
                if let Some(b) = spec.lex_case_insensitive {
                    lb = lb.case_insensitive(b);
                }
                if let Some(b) = spec.lex_posix_escapes {
                    lb = lb.posix_escapes(b);
                }
                if let Some(b) = spec.lex_allow_wholeline_comments {
                    lb = lb.allow_wholeline_comments(b);
                }
                // the two consistency checks between lexer and grammar: lenient unless asked for
                lb = lb.allow_missing_terms_in_lexer(!spec.strict_terms_in_lexer.unwrap_or(false));
                if spec.strict_tokens_in_parser.unwrap_or(false) {
                    lb = lb.allow_missing_tokens_in_parser(false).show_warnings(true).warnings_are_errors(true);
                } else {
                    lb = lb.allow_missing_tokens_in_parser(true).show_warnings(false);
                }
                lb
            }

            pub fn ct_build(spec: &CtSpec) -> CtResult {
                let mut out = CtResult::default();
                if let Some(ids) = &spec.lexer_only_rule_ids {
                    let sp = spec.clone();
                    let map: std::collections::HashMap<String, $t> = ids.iter().map(|(n, i)| (n.clone(), *i as $t)).collect();
                    match crate::exec::catch(move || {
                        let lb = CTLexerBuilder::<DefaultLexerTypes<$t>>::new_with_lexemet().rule_ids_map(map);
                        lexer_opts(lb, &sp).build().map(|_| ()).map_err(|e| e.to_string())
                    }) {
                        Ok(Ok(())) => out.lexer_ok = true,
                        Ok(Err(e)) => out.lexer_error = Some(e),
                        Err(p) => out.panicked = Some(p.detail()),
                    }
                    if let (Some(m), Some(d)) = (&spec.token_map_mod, &spec.token_map_dir) {
                        // CTTokenMapBuilder writes to $OUT_DIR (this process has one thread here)
                        unsafe { std::env::set_var("OUT_DIR", d) };
                        let map: std::collections::HashMap<String, $t> = ids.iter().map(|(n, i)| (n.clone(), *i as $t)).collect();
                        let m = m.clone();
                        out.token_map = Some(match crate::exec::catch(move || lrlex::CTTokenMapBuilder::<$t>::new(m, map).allow_dead_code(true).build().map_err(|e| e.to_string())) {
                            Ok(Ok(())) => "ok".to_string(),
                            Ok(Err(e)) => format!("err: {e}"),
                            Err(p) => format!("panic: {}", p.detail()),
                        });
                    }
                    return out;
                }
                if spec.combined.unwrap_or(false) {
                    // the documented one-call flow: the lexer builder drives the parser builder
                    out.combined = true;
                    let sp = spec.clone();
                    let r = crate::exec::catch(move || {
                        let sp2 = sp.clone();
                        let lb = CTLexerBuilder::<DefaultLexerTypes<$t>>::new_with_lexemet().lrpar_config(move |pb| parser_opts(pb, &sp2));
                        lexer_opts(lb, &sp).build().map(|_| ()).map_err(|e| e.to_string())
                    });
                    match r {
                        Ok(Ok(())) => {
                            out.parser_ok = true;
                            out.lexer_ok = true;
                        }
                        Ok(Err(e)) => out.lexer_error = Some(e),
                        Err(p) => out.panicked = Some(p.detail()),
                    }
                    return out;
                }
                let sp = spec.clone();
                let ctp = match crate::exec::catch(move || parser_opts(CTParserBuilder::<DefaultLexerTypes<$t>>::new(), &sp).build().map_err(|e| e.to_string())) {
                    Ok(Ok(ctp)) => ctp,
                    Ok(Err(e)) => {
                        out.parser_error = Some(e);
                        return out;
                    }
                    Err(p) => {
                        out.panicked = Some(p.detail());
                        return out;
                    }
                };
                out.parser_ok = true;
                out.regenerated = Some(ctp.regenerated());
                let sp = spec.clone();
                match crate::exec::catch(move || {
                    let lb = CTLexerBuilder::<DefaultLexerTypes<$t>>::new_with_lexemet().rule_ids_map(ctp.token_map());
                    lexer_opts(lb, &sp).build().map(|_| ()).map_err(|e| e.to_string())
                }) {
                    Ok(Ok(())) => out.lexer_ok = true,
                    Ok(Err(e)) => out.lexer_error = Some(e),
                    Err(p) => out.panicked = Some(p.detail()),
                }
                out
            }

        }
    };
}
ct_impl!(w32, u32);
ct_impl!(w16, u16);
ct_impl!(w8, u8);

pub fn ct_build(spec: &CtSpec) -> CtResult {
    match spec.storaget.as_deref() {
        Some("u16") => w16::ct_build(spec),
        Some("u8") => w8::ct_build(spec),
        _ => w32::ct_build(spec),
    }
}

/// `gtv ctstep`: spec as JSON on stdin, result as JSON on stdout (last line).
pub fn ctstep_main() -> ! {
    crate::exec::install_panic_hook();
    let mut s = String::new();
    use std::io::Read;
    std::io::stdin().read_to_string(&mut s).unwrap();
    let spec: CtSpec = serde_json::from_str(&s).expect("ctstep spec");
    let r = ct_build(&spec);
    println!("CTRESULT {}", serde_json::to_string(&r).unwrap());
    std::process::exit(0)
}

/// Run a build step in a fresh process.
pub fn run_ctstep(spec: &CtSpec) -> Result<CtResult, String> {
    use std::io::Write;
    use std::process::{Command, Stdio};
    let exe = std::env::current_exe().map_err(|e| e.to_string())?;
    let mut child = Command::new(exe)
        .arg("ctstep")
        .stdin(Stdio::piped())
        .stdout(Stdio::piped())
        .stderr(Stdio::null())
        .env("RUST_BACKTRACE", "0")
        .env_remove("OUT_DIR")
        .spawn()
        .map_err(|e| e.to_string())?;
    child
        .stdin
        .take()
        .unwrap()
        .write_all(serde_json::to_string(spec).unwrap().as_bytes())
        .map_err(|e| e.to_string())?;
    let out = child.wait_with_output().map_err(|e| e.to_string())?;
    let txt = String::from_utf8_lossy(&out.stdout);
    for line in txt.lines().rev() {
        if let Some(j) = line.strip_prefix("CTRESULT ") {
            return serde_json::from_str(j).map_err(|e| e.to_string());
        }
    }
    Err(format!("ctstep child produced no result (status {:?})", out.status))
}

#![allow(clippy::all)]
#![allow(deprecated)]
pub mod ctstep;
pub mod digest;
pub mod exec;
pub mod fuzzglue;
pub mod harness;
pub mod genr;
pub mod props;
pub mod recov;
pub mod refimpl;

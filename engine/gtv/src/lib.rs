#![allow(clippy::all)]
#![allow(deprecated)]
pub mod exec;
pub mod r#gen;
pub mod props;
pub mod refimpl;

//! C10 - a grammar object is a faithful, well-formed image of its `.y` source.

use crate::exec::{Outcome, Prop, Tier, catch, hash64};
use crate::genr::choices::Choices;
use crate::genr::grammar::{AG, Assoc, GenOpts, Sym, gen_grammar};
use crate::genr::yrender::{YKind, YLayout, decorate, render_varied};
use cfgrammar::yacc::ast::ASTWithValidityInfo;
use cfgrammar::yacc::{AssocKind, YaccGrammar, YaccKind, YaccOriginalActionKind};
use cfgrammar::{PIdx, RIdx, Symbol, TIdx};
use serde::{Deserialize, Serialize};
use serde_json::Value;
use std::str::FromStr;

/// Values that run to the end of their line: blanks around them are layout, anything else is not.
fn trim_blanks(s: &str) -> String {
    s.trim_matches(|c| c == ' ' || c == '\t').to_string()
}

pub struct C10;

#[derive(Serialize, Deserialize, Debug, Clone)]
pub struct Case {
    pub ag: AG,
    pub kind: YKind,
    pub text: String,
    pub layout: YLayout,
    /// 0 YaccGrammar::new_with_storaget, 1 from_str with a %grmtools header
    pub entry: u8,
    /// length of that header (0: the fixed header of `header_for`, as in older replay files)
    #[serde(default)]
    pub header_len: usize,
}

impl Case {
    /// The text after the %grmtools header (entry 1), the whole text otherwise.
    pub fn body(&self) -> &str {
        if self.entry == 1 {
            &self.text[if self.header_len > 0 { self.header_len } else { header_for(self.kind).len() }..]
        } else {
            &self.text
        }
    }
}

/// The header in one of several layouts: blanks or a line break between a value (also a
/// constructor's closing parenthesis) and the comma after it, a second entry, a trailing comma on a
/// line of its own.
pub fn header_variant(k: YKind, v: usize) -> String {
    let val = match k {
        YKind::Generic => "Original(GenericParseTree)",
        YKind::NoAction => "YaccKind::Original(YaccOriginalActionKind::NoAction)",
        YKind::UserAction => "Original(UserAction)",
        YKind::Grmtools => "Grmtools",
        YKind::Eco => "Eco",
    };
    match v {
        1 => format!("%grmtools{{yacckind: {val} , recoverer: RecoveryKind::None}}\n"),
        2 => format!("%grmtools{{yacckind: {val}\n  , recoverer: RecoveryKind::CPCTPlus\n}}\n"),
        3 => format!("%grmtools {{\n  yacckind: {val}\n  ,\n}}\n"),
        _ => header_for(k).to_string(),
    }
}

pub fn yacc_kind(k: YKind) -> YaccKind {
    match k {
        YKind::Generic => YaccKind::Original(YaccOriginalActionKind::GenericParseTree),
        YKind::NoAction => YaccKind::Original(YaccOriginalActionKind::NoAction),
        YKind::UserAction => YaccKind::Original(YaccOriginalActionKind::UserAction),
        YKind::Grmtools => YaccKind::Grmtools,
        YKind::Eco => YaccKind::Eco,
    }
}

pub fn header_for(k: YKind) -> &'static str {
    match k {
        YKind::Generic => "%grmtools{yacckind: Original(GenericParseTree)}\n",
        YKind::NoAction => "%grmtools {\n  yacckind: YaccKind::Original(YaccOriginalActionKind::NoAction),\n}\n",
        YKind::UserAction => "%grmtools{yacckind: Original(UserAction)}\n",
        YKind::Grmtools => "%grmtools{yacckind: Grmtools}\n",
        YKind::Eco => "%grmtools{yacckind: Eco}\n",
    }
}

pub fn gen_case(ch: &mut Choices, tier: Tier) -> Case {
    gen_case_with(ch, tier, None)
}

/// As `gen_case`, with an optional transformation of the decorated AG before it is rendered.
pub fn gen_case_with(ch: &mut Choices, tier: Tier, post: Option<fn(&mut Choices, &mut AG, YKind)>) -> Case {
    gen_case_opts(ch, tier, post, [5, 3, 1, 1])
}

/// As `gen_case_with`, with the weights of the grammar strata (rand, expr, lr1, repo).
pub fn gen_case_opts(ch: &mut Choices, tier: Tier, post: Option<fn(&mut Choices, &mut AG, YKind)>, strata: [usize; 4]) -> Case {
    let kind = *ch.choose(&[YKind::Generic, YKind::Grmtools, YKind::UserAction, YKind::Eco, YKind::NoAction, YKind::Generic]);
    let o = GenOpts {
        max_rules: tier.pick(4, 6),
        max_prods: 3,
        max_syms: 4,
        max_tokens: 5,
        allow_cycles: true,
        allow_unproductive: true,
        strata,
        precedence: true,
        avoid_insert: false,
        pad_tokens: true,
    };
    let mut ag = gen_grammar(ch, &o);
    decorate(ch, &mut ag, kind);
    if let Some(f) = post {
        f(ch, &mut ag, kind);
    }
    let (mut text, mut layout) = render_varied(ch, &ag, kind);
    let entry = if ch.chance(1, 3) { 1 } else { 0 };
    let mut header_len = 0;
    if entry == 1 {
        let h = header_variant(kind, ch.weighted(&[3, 1, 1, 1]));
        let off = h.len();
        header_len = off;
        text = format!("{h}{text}");
        let sh = |x: &mut (usize, usize)| {
            x.0 += off;
            x.1 += off;
        };
        layout.rule_name.iter_mut().flatten().for_each(sh);
        layout.token_first.iter_mut().flatten().for_each(sh);
        for p in &mut layout.prods {
            p.start += off;
            p.end += off;
            if let Some(a) = p.action.as_mut() {
                a.0 += off;
                a.1 += off;
            }
        }
        layout.features.push("header".into());
    }
    Case {
        ag,
        kind,
        text,
        layout,
        entry,
        header_len,
    }
}

fn assoc(k: Assoc) -> AssocKind {
    match k {
        Assoc::Left => AssocKind::Left,
        Assoc::Right => AssocKind::Right,
        Assoc::Nonassoc => AssocKind::Nonassoc,
    }
}

impl Prop for C10 {
    fn id(&self) -> &'static str {
        "C10"
    }
    fn fuzz_target(&self) -> Option<&'static str> {
        Some("fz_choices")
    }
    fn stream_len(&self, _tier: Tier) -> usize {
        900
    }
    fn cases(&self, tier: Tier) -> u32 {
        tier.pick(500_000, 8_000_000)
    }
    fn decode(&self, choices: &[u32], tier: Tier) -> Value {
        let mut ch = Choices::new(choices);
        serde_json::to_value(gen_case(&mut ch, tier)).unwrap()
    }
    fn rule(&self) -> String {
        "AG (all strata, cycles and unproductive rules allowed) decorated with varied rule/token names (quoted tokens containing quotes, spaces, //, /*, multi-byte; identifier tokens spelled bare after %token), %epp with escaped quotes, %avoid_insert, %expect(-rr), %parse-param, %actiontype, Eco %implicit_tokens, actions; rendered with random declaration order, one or several %token lines, mixed quoting, %empty or nothing, rules split in blocks, spaces/tabs/LF/CRLF, // and /* */ comments (multi-line, containing quotes, %%, lines starting with '/'); kinds Original(GenericParseTree|NoAction|UserAction), Grmtools, Eco; entry points new_with_storaget and from_str with a %grmtools header. Oracle: print-then-parse equality with the AG up to token numbering, well-formedness of every index and accessor, spans against the renderer's layout map. Evaluation = one rendering. Non-trivial: rendering has >=2 of {comment inside a rule, rule split in blocks, %prec followed by an action, double-quoted or bare token, CRLF, header, Eco implicit tokens}; distinct by hash(text).".into()
    }
    fn assumptions(&self) -> Vec<String> {
        vec![
            "token numbering only has to be dense and bijective with the names".into(),
            "prod_span may end anywhere between the end of the production's last symbol and the following action brace or delimiter; action_span is only checked for lying inside the text and between the braces".into(),
            "%parse-param / %parse-generics / %actiontype text compared after trimming spaces and tabs (nothing else: a line terminator is not part of the value)".into(),
        ]
    }
    fn required_classes(&self, _tier: Tier) -> Vec<&'static str> {
        vec![
            "kind:Generic",
            "kind:Grmtools",
            "kind:UserAction",
            "kind:Eco",
            "kind:NoAction",
            "feat:crlf",
            "feat:rule-split-in-blocks",
            "feat:prec-followed-by-action",
            "feat:bare-token",
            "feat:double-quoted-token",
            "feat:line-comment",
            "feat:multi-line-block-comment",
            "feat:percent-empty",
            "feat:header",
            "eco-implicit-tokens",
        ]
    }
    fn evaluate(&self, case: &Value) -> Outcome {
        let case: Case = serde_json::from_value(case.clone()).unwrap();
        let mut o = Outcome::new();
        o.evals = 1;
        let ag = &case.ag;
        let text = &case.text;
        let lay = &case.layout;
        o.class(&format!("kind:{:?}", case.kind));
        for f in &lay.features {
            o.class(&format!("feat:{f}"));
        }
        let r = catch(|| {
            if case.entry == 1 {
                YaccGrammar::<u32>::from_str(text)
            } else {
                YaccGrammar::<u32>::new_with_storaget(yacc_kind(case.kind), text)
            }
        });
        let grm = match r {
            Err(p) => {
                o.fail("panic", format!("C10/{}", p.signature()), format!("{}\n{text}", p.detail()));
                return o;
            }
            Ok(Err(errs)) => {
                // the signature names the kind of the first error, so that different causes stay apart
                let kind = errs.first().map(|e| format!("{:?}", e).split(|c: char| !c.is_alphanumeric()).filter(|w| !w.is_empty()).nth(2).unwrap_or("error").to_string()).unwrap_or_default();
                o.fail("wrong", format!("C10/valid-grammar-rejected/{kind}"), format!("{:?}\n{text}", errs));
                return o;
            }
            Ok(Ok(g)) => g,
        };
        let fail = |o: &mut Outcome, sig: &str, m: String| {
            o.fail("wrong", format!("C10/{sig}"), format!("{m}\n--- source ---\n{text}"));
        };
        let nr = ag.rules.len();
        let nt = ag.tokens.len();
        let implicit = case.kind == YKind::Eco && !ag.implicit_tokens.is_empty();
        if implicit {
            o.class("eco-implicit-tokens");
        }
        let added_rules = if implicit { 3 } else { 1 };
        // ---- counts and density
        let rules_len = usize::from(grm.rules_len());
        let prods_len = usize::from(grm.prods_len());
        let tokens_len = usize::from(grm.tokens_len());
        if rules_len != nr + added_rules || grm.iter_rules().count() != rules_len {
            fail(&mut o, "rule-count", format!("rules_len {rules_len}, expected {} user rules + {added_rules}", nr));
            return o;
        }
        if tokens_len != nt + 1 || grm.iter_tidxs().count() != tokens_len {
            fail(&mut o, "token-count", format!("tokens_len {tokens_len}, expected {nt} + end of input; names {:?}", grm.iter_tidxs().map(|t| grm.token_name(t).map(|s| s.to_string())).collect::<Vec<_>>()));
            return o;
        }
        let user_prods = ag.nprods();
        let added_prods = if implicit { 2 + ag.implicit_tokens.len() + 1 } else { 1 };
        if prods_len != user_prods + added_prods || grm.iter_pidxs().count() != prods_len {
            fail(&mut o, "prod-count", format!("prods_len {prods_len}, expected {user_prods} + {added_prods}"));
            return o;
        }
        // ---- every accessor on every valid index
        let acc = catch(|| {
            for p in grm.iter_pidxs() {
                let _ = grm.prod(p);
                let _ = grm.prod_len(p);
                let _ = grm.prod_to_rule(p);
                let _ = grm.prod_precedence(p);
                let _ = grm.prod_span(p);
                let _ = grm.action(p);
                let _ = grm.action_span(p);
                let _ = grm.pp_prod(p);
            }
            for r in grm.iter_rules() {
                let _ = grm.rule_to_prods(r);
                let _ = grm.rule_name_str(r);
                let _ = grm.rule_name_span(r);
                let _ = grm.actiontype(r);
            }
            for t in grm.iter_tidxs() {
                let _ = grm.token_name(t);
                let _ = grm.token_precedence(t);
                let _ = grm.token_epp(t);
                let _ = grm.token_span(t);
                let _ = grm.avoid_insert(t);
            }
        });
        if let Err(p) = acc {
            o.fail(
                "panic",
                format!("C10/accessor/{}", p.signature()),
                format!("an accessor panics on a valid index: {}\n{text}", p.detail()),
            );
            return o;
        }
        // ---- tokens: names bijective; one unnamed end-of-input token
        let mut tmap: Vec<Option<TIdx<u32>>> = vec![None; nt];
        let mut unnamed = 0;
        for t in grm.iter_tidxs() {
            match grm.token_name(t) {
                None => {
                    unnamed += 1;
                    if t != grm.eof_token_idx() {
                        fail(&mut o, "unnamed-token", format!("token {} has no name but is not the end-of-input token", usize::from(t)));
                        return o;
                    }
                }
                Some(n) => match ag.tokens.iter().position(|x| x == n) {
                    Some(i) if tmap[i].is_none() => tmap[i] = Some(t),
                    _ => {
                        fail(&mut o, "token-set", format!("token {n:?} is not (or twice) in the source's token set {:?}", ag.tokens));
                        return o;
                    }
                },
            }
        }
        if unnamed != 1 || tmap.iter().any(|t| t.is_none()) {
            fail(&mut o, "token-set", format!("tokens {:?} vs source {:?}", grm.iter_tidxs().map(|t| grm.token_name(t)).collect::<Vec<_>>(), ag.tokens));
            return o;
        }
        let tmap: Vec<TIdx<u32>> = tmap.into_iter().map(|t| t.unwrap()).collect();
        // token_idx / tokens_map agree
        for (i, n) in ag.tokens.iter().enumerate() {
            if grm.token_idx(n) != Some(tmap[i]) || grm.tokens_map().get(n.as_str()) != Some(&tmap[i]) {
                fail(&mut o, "token-idx", format!("token_idx/tokens_map disagree for {n:?}"));
                return o;
            }
        }
        // ---- rules in order of first definition, after the added rules
        let mut rmap: Vec<RIdx<u32>> = vec![RIdx(0); nr];
        for (k, r) in lay.rule_order.iter().enumerate() {
            let ridx = RIdx((added_rules + k) as u32);
            if grm.rule_name_str(ridx) != ag.rules[*r].name {
                fail(&mut o, "rule-order", format!("rule {} is {:?}, expected {:?} (rules in order of first definition after the added ones)", added_rules + k, grm.rule_name_str(ridx), ag.rules[*r].name));
                return o;
            }
            if grm.rule_idx(&ag.rules[*r].name) != Some(ridx) {
                fail(&mut o, "rule-idx", format!("rule_idx({:?})", ag.rules[*r].name));
                return o;
            }
            rmap[*r] = ridx;
        }
        // ---- start rule
        let sp = grm.start_prod();
        let srule = grm.prod_to_rule(sp);
        if srule != RIdx(0) || grm.start_rule_idx() != RIdx(0) || grm.rule_to_prods(srule) != [sp] {
            fail(&mut o, "start-rule", format!("the added start rule is rule {} with productions {:?}", usize::from(srule), grm.rule_to_prods(srule)));
            return o;
        }
        if !implicit {
            if grm.prod(sp) != [Symbol::Rule(rmap[ag.start])] {
                fail(&mut o, "start-rule", format!("start production is {:?}, expected exactly the user's start rule {}", grm.prod(sp), ag.rules[ag.start].name));
                return o;
            }
            if grm.implicit_rule().is_some() {
                fail(&mut o, "implicit-rule", "implicit rule reported without %implicit_tokens".into());
                return o;
            }
        } else {
            let ir = grm.implicit_rule();
            let ok = ir == Some(RIdx(1))
                && grm.prod(sp) == [Symbol::Rule(RIdx(2))]
                && grm.rule_to_prods(RIdx(2)).len() == 1
                && grm.prod(grm.rule_to_prods(RIdx(2))[0]) == [Symbol::Rule(RIdx(1)), Symbol::Rule(rmap[ag.start])];
            if !ok {
                fail(&mut o, "eco-start", format!("Eco start structure wrong: implicit rule {:?}, start prod {:?}", ir.map(usize::from), grm.prod(sp)));
                return o;
            }
            // ~ : tok ~ | ... | ;
            let iprods = grm.rule_to_prods(RIdx(1));
            let mut toks: Vec<usize> = vec![];
            let mut empties = 0;
            for p in iprods {
                match grm.prod(*p) {
                    [] => empties += 1,
                    [Symbol::Token(t), Symbol::Rule(r)] if *r == RIdx(1) => {
                        toks.push(tmap.iter().position(|x| x == t).unwrap_or(usize::MAX))
                    }
                    other => {
                        fail(&mut o, "eco-implicit-rule", format!("unexpected production {:?}", other));
                        return o;
                    }
                }
            }
            toks.sort();
            let mut exp = ag.implicit_tokens.clone();
            exp.sort();
            if empties != 1 || toks != exp {
                fail(&mut o, "eco-implicit-rule", format!("implicit rule derives tokens {toks:?} and {empties} empty productions, expected {exp:?} and one"));
                return o;
            }
        }
        // ---- productions: global source order; per rule source order; symbols; prec; actions
        if lay.prods.len() != user_prods {
            o.fail("harness", "C10/layout", "layout production count".to_string());
            return o;
        }
        let ir = grm.implicit_rule();
        for (k, pl) in lay.prods.iter().enumerate() {
            let pidx = PIdx(k as u32);
            let ap = &ag.rules[pl.rule].prods[pl.prod];
            if grm.prod_to_rule(pidx) != rmap[pl.rule] {
                fail(&mut o, "prod-order", format!("production {k} (in source order) belongs to rule {}, expected {}", grm.rule_name_str(grm.prod_to_rule(pidx)), ag.rules[pl.rule].name));
                return o;
            }
            let mut exp_syms: Vec<Symbol<u32>> = vec![];
            for s in &ap.syms {
                match s {
                    Sym::T(t) => {
                        exp_syms.push(Symbol::Token(tmap[*t]));
                        if let Some(i) = ir {
                            exp_syms.push(Symbol::Rule(i));
                        }
                    }
                    Sym::R(r) => exp_syms.push(Symbol::Rule(rmap[*r])),
                }
            }
            if grm.prod(pidx) != exp_syms.as_slice() || usize::from(grm.prod_len(pidx)) != exp_syms.len() {
                fail(&mut o, "prod-symbols", format!("production {k} of {} is {:?}, expected {:?}", ag.rules[pl.rule].name, grm.prod(pidx), exp_syms));
                return o;
            }
            // precedence
            let exp_prec = ag.prod_prec(ap);
            let got = grm.prod_precedence(pidx);
            match (exp_prec, got) {
                (None, None) => {}
                (Some((lvl, k2)), Some(g)) if g.kind == assoc(k2) => {
                    // levels compared by order against token precedences below
                    let tok_with_level = (0..nt).find(|t| ag.token_prec(*t).map(|x| x.0) == Some(lvl)).unwrap();
                    if grm.token_precedence(tmap[tok_with_level]).map(|p| p.level) != Some(g.level) {
                        fail(&mut o, "prod-precedence", format!("production {k}: level {} differs from its defining token's level", g.level));
                        return o;
                    }
                }
                _ => {
                    fail(&mut o, "prod-precedence", format!("production {k} of {} ({:?} %prec {:?}): precedence {:?}, expected {:?}", ag.rules[pl.rule].name, ap.syms, ap.prec, got, exp_prec));
                    return o;
                }
            }
            // action
            if grm.action(pidx).as_deref() != ap.action.as_deref() {
                fail(&mut o, "action", format!("production {k}: action {:?}, source has {:?}", grm.action(pidx), ap.action));
                return o;
            }
            match (grm.action_span(pidx), pl.action) {
                (None, None) => {}
                (Some(sp), Some((open, close))) => {
                    if !(open < sp.start() && sp.start() <= sp.end() && sp.end() <= close) {
                        fail(&mut o, "action-span", format!("production {k}: action_span {}..{} not between the braces at {open} and {close}", sp.start(), sp.end()));
                        return o;
                    }
                }
                (a, b) => {
                    fail(&mut o, "action-span", format!("production {k}: action_span {:?} vs braces {:?}", a.map(|s| (s.start(), s.end())), b));
                    return o;
                }
            }
            // production span
            let sp = grm.prod_span(pidx);
            let limit = pl.action.map(|a| a.0).unwrap_or(usize::MAX);
            let ok_end = if pl.action.is_some() { sp.end() >= pl.end && sp.end() <= limit } else { sp.end() == pl.end || (sp.end() >= pl.end && text[pl.end..sp.end()].chars().all(|c| c.is_whitespace())) };
            if sp.start() != pl.start || !ok_end || sp.end() > text.len() {
                // comments between the last symbol and the delimiter are tolerated
                let tolerated = sp.start() == pl.start && sp.end() >= pl.end && sp.end() <= text.len() && pl.action.is_none() && {
                    let rest = &text[pl.end..sp.end()];
                    rest.is_empty()
                };
                if !tolerated {
                    fail(
                        &mut o,
                        "prod-span",
                        format!(
                            "production {k} of {}: prod_span {}..{} = {:?}; its first symbol starts at {} and its last symbol ends at {}",
                            ag.rules[pl.rule].name,
                            sp.start(),
                            sp.end(),
                            text.get(sp.start()..sp.end()),
                            pl.start,
                            pl.end
                        ),
                    );
                    return o;
                }
            }
        }
        // per-rule: rule_to_prods in source order and inverse of prod_to_rule
        for r in 0..nr {
            let exp: Vec<PIdx<u32>> = lay
                .prods
                .iter()
                .enumerate()
                .filter(|(_, pl)| pl.rule == r)
                .map(|(k, _)| PIdx(k as u32))
                .collect();
            // source order of a rule's own productions must follow the AG's order
            let order_ok = lay.prods.iter().filter(|pl| pl.rule == r).map(|pl| pl.prod).collect::<Vec<_>>() == (0..ag.rules[r].prods.len()).collect::<Vec<_>>();
            if !order_ok {
                o.fail("harness", "C10/layout", "renderer changed production order".to_string());
                return o;
            }
            if grm.rule_to_prods(rmap[r]) != exp.as_slice() {
                fail(&mut o, "rule-to-prods", format!("rule_to_prods({}) = {:?}, expected {:?}", ag.rules[r].name, grm.rule_to_prods(rmap[r]), exp));
                return o;
            }
            // action types
            let exp_ty: Option<String> = match case.kind {
                YKind::Grmtools => ag.rules[r].actiontype.clone(),
                YKind::UserAction => Some("Vec<é>".to_string()),
                _ => None,
            };
            let got_ty = grm.actiontype(rmap[r]).as_ref().map(|s| trim_blanks(s));
            if got_ty != exp_ty {
                fail(&mut o, "actiontype", format!("actiontype({}) = {:?}, expected {:?}", ag.rules[r].name, got_ty, exp_ty));
                return o;
            }
            // rule name span
            let sp = grm.rule_name_span(rmap[r]);
            if Some((sp.start(), sp.end())) != lay.rule_name[r] {
                fail(&mut o, "rule-name-span", format!("rule_name_span({}) = {}..{} = {:?}, first definition at {:?}", ag.rules[r].name, sp.start(), sp.end(), text.get(sp.start()..sp.end()), lay.rule_name[r]));
                return o;
            }
        }
        for p in grm.iter_pidxs() {
            let r = grm.prod_to_rule(p);
            if !grm.rule_to_prods(r).contains(&p) {
                fail(&mut o, "prod-rule-inverse", format!("production {} not among the productions of its rule", usize::from(p)));
                return o;
            }
            for s in grm.prod(p) {
                let ok = match s {
                    Symbol::Rule(r) => usize::from(*r) < rules_len,
                    Symbol::Token(t) => usize::from(*t) < tokens_len,
                };
                if !ok {
                    fail(&mut o, "index-out-of-range", format!("production {} mentions {:?}", usize::from(p), s));
                    return o;
                }
            }
        }
        // ---- token attributes
        // precedence levels: same order as the lines
        let mut levels: Vec<(usize, u64)> = vec![];
        for t in 0..nt {
            let exp = ag.token_prec(t);
            let got = grm.token_precedence(tmap[t]);
            match (exp, got) {
                (None, None) => {}
                (Some((lvl, k)), Some(g)) if g.kind == assoc(k) => levels.push((lvl, g.level)),
                _ => {
                    fail(&mut o, "token-precedence", format!("token {:?}: precedence {:?}, expected {:?}", ag.tokens[t], got, exp));
                    return o;
                }
            }
        }
        for a in &levels {
            for b in &levels {
                if (a.0 < b.0) != (a.1 < b.1) || (a.0 == b.0) != (a.1 == b.1) {
                    fail(&mut o, "token-precedence-levels", format!("levels (line, level) {levels:?} are not ordered like the declaration lines"));
                    return o;
                }
            }
        }
        for t in 0..nt {
            let exp_epp = ag.epp.iter().find(|(x, _)| *x == t).map(|(_, v)| v.as_str()).unwrap_or(ag.tokens[t].as_str());
            if grm.token_epp(tmap[t]) != Some(exp_epp) {
                fail(&mut o, "token-epp", format!("token_epp({:?}) = {:?}, expected {:?}", ag.tokens[t], grm.token_epp(tmap[t]), exp_epp));
                return o;
            }
            if grm.avoid_insert(tmap[t]) != ag.avoid_insert.contains(&t) {
                fail(&mut o, "avoid-insert", format!("avoid_insert({:?}) = {}", ag.tokens[t], grm.avoid_insert(tmap[t])));
                return o;
            }
            let sp = grm.token_span(tmap[t]);
            if sp.map(|s| (s.start(), s.end())) != lay.token_first[t] {
                fail(&mut o, "token-span", format!("token_span({:?}) = {:?} = {:?}, first spelling at {:?}", ag.tokens[t], sp.map(|s| (s.start(), s.end())), sp.and_then(|s| text.get(s.start()..s.end())), lay.token_first[t]));
                return o;
            }
        }
        if grm.token_epp(grm.eof_token_idx()).is_some() || grm.token_span(grm.eof_token_idx()).is_some() {
            fail(&mut o, "eof-token", "end-of-input token has a name/epp/span".into());
            return o;
        }
        if grm.expect() != ag.expect || grm.expectrr() != ag.expect_rr {
            fail(&mut o, "expect", format!("expect {:?}/{:?}, source {:?}/{:?}", grm.expect(), grm.expectrr(), ag.expect, ag.expect_rr));
            return o;
        }
        let pp_in_text = text.contains("%parse-param");
        if grm.programs().as_deref() != lay.programs.as_deref() {
            fail(&mut o, "programs", format!("programs() {:?}, the source has {:?}", grm.programs(), lay.programs));
            return o;
        }
        let exp_pg = if text.contains("%parse-generics") { Some("'a, T: Copy".to_string()) } else { None };
        if grm.parse_generics().as_ref().map(|s| trim_blanks(s)) != exp_pg {
            fail(&mut o, "parse-generics", format!("parse_generics() {:?}, expected {:?}", grm.parse_generics(), exp_pg));
            return o;
        }
        let got_pp = grm.parse_param().as_ref().map(|(a, b)| (trim_blanks(a), trim_blanks(b)));
        let exp_pp = if pp_in_text { Some(("p".to_string(), "&'a mut u8".to_string())) } else { None };
        if got_pp != exp_pp {
            fail(&mut o, "parse-param", format!("parse_param {:?}, expected {:?}", got_pp, exp_pp));
            return o;
        }
        // ---- ASTWithValidityInfo agrees on validity
        let astv = ASTWithValidityInfo::new(yacc_kind(case.kind), case.body());
        if !astv.is_valid() {
            fail(&mut o, "ast-validity", "ASTWithValidityInfo::new says invalid".into());
            return o;
        }
        let interesting = ["line-comment", "multi-line-block-comment", "inline-block-comment", "rule-split-in-blocks", "prec-followed-by-action", "double-quoted-token", "bare-token", "crlf", "header"];
        let n = lay.features.iter().filter(|f| interesting.contains(&f.as_str())).count() + usize::from(implicit);
        if n >= 2 {
            o.nontrivial.push(hash64(text));
            o.sample = Some(serde_json::json!({"kind": format!("{:?}", case.kind), "text": text}));
        }
        o
    }
}

//! C13 - a compile-time generated parser and lexer behave exactly like the run-time ones.
//! Translation validation per generated program: one cargo build of a batch crate that runs the
//! real builders in its build script, then one run of the resulting binary which compares the
//! generated modules with the run-time pipeline on the same sources (engine/ctbatch).

use crate::exec::runner::RunCfg;
use crate::exec::{Outcome, Prop, Tier, hash64};
use crate::genr::choices::Choices;
use crate::genr::grammar::{AG, GenOpts, Sym, gen_grammar};
use crate::genr::inputs::gen_input;
use crate::harness::{build, table_loop_witness};
use serde::{Deserialize, Serialize};
use serde_json::{Value, json};
use std::path::Path;
use std::process::Command;

pub struct C13;

#[derive(Serialize, Deserialize, Debug, Clone)]
pub struct Pair {
    pub id: u64,
    /// "Grmtools" | "UserAction" | "Generic" | "NoAction" | "LexOnly"
    pub kind: String,
    pub ytext: String,
    pub ltext: String,
    pub settings: serde_json::Map<String, Value>,
    pub inputs: Vec<String>,
    pub rules: Vec<String>,
    pub ident_tokens: Vec<String>,
    /// kind "LexOnly": the lexer by itself; token ids supplied by the user
    #[serde(default)]
    pub ids: Vec<(String, u32)>,
}

fn render_y(ag: &AG, kind: &str, settings: &serde_json::Map<String, Value>) -> String {
    let mut s = String::new();
    let yk_header = settings.get("yacckind_in_header").and_then(|v| v.as_bool()).unwrap_or(false);
    let rec_header = settings.get("header_recoverer").and_then(|v| v.as_str());
    let yk_conflict = settings.get("header_yacckind_conflict").and_then(|v| v.as_bool()).unwrap_or(false);
    if yk_header || rec_header.is_some() || yk_conflict {
        let mut items = vec![];
        if yk_conflict {
            // the section names another kind than the builder: the builder's setting wins
            items.push(match kind {
                "Generic" => "yacckind: Original(NoAction)".to_string(),
                _ => "yacckind: Original(GenericParseTree)".to_string(),
            });
        }
        if yk_header {
            items.push(match kind {
                "Grmtools" => "yacckind: Grmtools".to_string(),
                "NoAction" => "yacckind: Original(NoAction)".to_string(),
                "UserAction" => "yacckind: Original(UserAction)".to_string(),
                _ => "yacckind: Original(GenericParseTree)".to_string(),
            });
        }
        if let Some(r) = rec_header {
            items.push(format!("recoverer: RecoveryKind::{r}"));
        }
        s.push_str(&format!("%grmtools{{{}}}\n", items.join(", ")));
    }
    s.push_str(&format!("%start {}\n", ag.rules[ag.start].name));
    let actions = kind == "Grmtools" || kind == "UserAction";
    let param = if actions { settings.get("param").and_then(|v| v.as_str()).unwrap_or("none") } else { "none" };
    let unit: Vec<bool> = settings
        .get("unit_rules")
        .and_then(|v| v.as_array())
        .map(|a| a.iter().map(|b| b.as_bool().unwrap_or(false)).collect())
        .unwrap_or_default();
    let is_unit = |r: usize| kind == "Grmtools" && unit.get(r).copied().unwrap_or(false);
    if kind == "UserAction" {
        s.push_str("%actiontype String\n");
    }
    match param {
        "u64" => s.push_str("%parse-param p: u64\n"),
        "log" => s.push_str("%parse-param log: &::std::cell::RefCell<Vec<String>>\n"),
        "generic" => s.push_str("%parse-generics 'a, T: ::std::fmt::Debug + Clone\n%parse-param p: &'a T\n"),
        _ => {}
    }
    if !ag.avoid_insert.is_empty() {
        s.push_str("%avoid_insert");
        for t in &ag.avoid_insert {
            s.push_str(&format!(" '{}'", ag.tokens[*t]));
        }
        s.push('\n');
    }
    for l in &ag.precs {
        s.push_str(match l.kind {
            crate::genr::grammar::Assoc::Left => "%left",
            crate::genr::grammar::Assoc::Right => "%right",
            crate::genr::grammar::Assoc::Nonassoc => "%nonassoc",
        });
        for t in &l.tokens {
            s.push_str(&format!(" '{}'", ag.tokens[*t]));
        }
        s.push('\n');
    }
    // every token is declared so that unused ones exist on both sides
    s.push_str("%token");
    for t in &ag.tokens {
        s.push_str(&format!(" '{t}'"));
    }
    s.push('\n');
    // %epp strings for the first tokens: quotes of both kinds, braces, comment openers, non-ASCII,
    // the empty string (they end up as string literals in the generated module)
    const EPPS: &[&str] = &["\"pretty \\\"0\\\"\"", "\"it's\"", "'say \"x\"'", "\"{x} #[y] {{\"", "\"/* */ // */\"", "\"\u{e9} \u{6f22} \u{1f600}\"", "\"\"", "\"r#\\\"raw\\\"#\""];
    let neps = settings.get("epps").and_then(|v| v.as_u64()).unwrap_or(1) as usize;
    let first = settings.get("epp_first").and_then(|v| v.as_u64()).unwrap_or(0) as usize;
    for k in 0..neps.min(ag.tokens.len()) {
        s.push_str(&format!("%epp '{}' {}\n", ag.tokens[k], EPPS[(first + k) % EPPS.len()]));
    }
    s.push_str("%%\n");
    let mut pidx = 0;
    for (ri, r) in ag.rules.iter().enumerate() {
        s.push_str(&r.name);
        if kind == "Grmtools" {
            s.push_str(if is_unit(ri) { " -> ()" } else { " -> String" });
        }
        s.push(':');
        for (i, p) in r.prods.iter().enumerate() {
            if i > 0 {
                s.push_str("\n  |");
            }
            for sy in &p.syms {
                match sy {
                    Sym::T(t) => s.push_str(&format!(" '{}'", ag.tokens[*t])),
                    Sym::R(x) => s.push_str(&format!(" {}", ag.rules[*x].name)),
                }
            }
            if let Some(t) = p.prec {
                s.push_str(&format!(" %prec '{}'", ag.tokens[t]));
            }
            if actions {
                // the fixed action template (its native twin lives in ctbatch/src/main.rs)
                // every other action begins with a string literal that holds comment openers, so
                // that all the `$` substitutions of its first line follow a "//" and a "/*"
                let lit = if pidx % 2 == 0 { " let _u = \"http://x/*y\";" } else { "" };
                s.push_str(&format!(" {{{lit} let mut s = String::new(); s.push_str(\"p{pidx}[\"); s.push_str(&format!(\"{{}}..{{}} $$ \", $span.start(), $span.end()));"));
                match param {
                    "u64" => s.push_str(" s.push_str(&format!(\"P{} \", p));"),
                    "generic" => s.push_str(" s.push_str(&format!(\"P{:?} \", p));"),
                    _ => {}
                }
                for (k, sy) in p.syms.iter().enumerate() {
                    let n = k + 1;
                    match sy {
                        Sym::T(_) => s.push_str(&format!(
                            " match ${n} {{ Ok(l) => s.push_str(&format!(\"T{{}}:{{:?}},\", l.tok_id(), $lexer.span_str(l.span()))), Err(l) => s.push_str(&format!(\"E{{}}@{{}},\", l.tok_id(), l.span().start())) }};"
                        )),
                        Sym::R(x) if is_unit(*x) => s.push_str(&format!(" let _: () = ${n}; s.push_str(\"(),\");")),
                        Sym::R(_) => s.push_str(&format!(" s.push_str(&${n}); s.push(',');")),
                    }
                }
                // (a second `$$`, this one after all the other `$` references of the action)
                s.push_str(" s.push_str(\"]$$\");");
                if param == "log" {
                    s.push_str(if ch_layout(pidx) { "\n      log.borrow_mut().push(s.clone());" } else { " log.borrow_mut().push(s.clone());" });
                }
                s.push_str(if is_unit(ri) { " drop(s); }" } else { " s }" });
            }
            pidx += 1;
        }
        s.push_str("\n  ;\n");
    }
    s
}

/// some action bodies span several lines
fn ch_layout(pidx: usize) -> bool {
    pidx % 3 == 1
}

fn render_l(ag: &AG, settings: &serde_json::Map<String, Value>) -> String {
    let mut s = String::new();
    let mut flags = vec![];
    if let Some(b) = settings.get("header_case_insensitive").and_then(|v| v.as_bool()) {
        flags.push(format!("{}case_insensitive", if b { "" } else { "!" }));
    }
    if let Some(b) = settings.get("header_dot_matches_new_line").and_then(|v| v.as_bool()) {
        flags.push(format!("{}dot_matches_new_line", if b { "" } else { "!" }));
    }
    if !flags.is_empty() {
        s.push_str(&format!("%grmtools{{{}}}\n", flags.join(", ")));
    }
    s.push_str("%%\n");
    let reserved = settings.get("reserved_rule").and_then(|v| v.as_bool()).unwrap_or(false);
    if reserved {
        // a named rule the grammar does not know (a reserved word): it takes part in the match
        // like any other rule and, where it wins, lexing stops with an error
        s.push_str("w0xx 'RESERVED_WORD'\n");
    }
    for (i, t) in ag.tokens.iter().enumerate() {
        if i == 0 && reserved {
            s.push_str(&format!("w0x+ '{t}'\n"));
        } else {
            s.push_str(&format!("w{i}x '{t}'\n"));
        }
    }
    s.push_str("c.c ;\n[ \\t\\n]+ ;\n");
    s
}

pub fn gen_pair(ch: &mut Choices, id: u64) -> Option<Pair> {
    let o = GenOpts {
        max_rules: 4,
        max_prods: 3,
        max_syms: 4,
        max_tokens: 4,
        allow_cycles: false,
        allow_unproductive: false,
        strata: [5, 2, 1, 3],
        precedence: true,
        avoid_insert: true,
        pad_tokens: false,
    };
    let ag = gen_grammar(ch, &o);
    // domain: tables on which the plain LR loop always terminates
    let b = build(&ag).ok()?;
    if table_loop_witness(&b).is_some() {
        return None;
    }
    let kind = ch.choose(&["Grmtools", "Generic", "Grmtools", "NoAction", "UserAction", "Grmtools"]).to_string();
    let mut settings = serde_json::Map::new();
    if kind == "Grmtools" || kind == "UserAction" {
        // %parse-param: absent / by value / a shared log every action appends to / behind %parse-generics
        let param = *ch.choose(&["none", "log", "u64", "log", "generic"]);
        if param != "none" {
            settings.insert("param".into(), json!(param));
        }
        if kind == "Grmtools" && param == "log" && ch.chance(1, 2) {
            // some rules (never the start rule) have the unit type: their actions are only visible in the log
            let unit: Vec<bool> = (0..ag.rules.len()).map(|r| r != ag.start && ch.chance(1, 2)).collect();
            if unit.iter().any(|b| *b) {
                settings.insert("unit_rules".into(), json!(unit));
            }
        }
    }
    if ch.chance(1, 3) {
        settings.insert("yacckind_in_header".into(), json!(true));
    } else if ch.chance(1, 4) {
        settings.insert("header_yacckind_conflict".into(), json!(true));
    }
    match ch.weighted(&[3, 1, 1, 1, 1]) {
        1 => {
            settings.insert("builder_recoverer".into(), json!("None"));
        }
        2 => {
            settings.insert("builder_recoverer".into(), json!("CPCTPlus"));
        }
        3 => {
            settings.insert("header_recoverer".into(), json!("None"));
        }
        4 => {
            settings.insert("header_recoverer".into(), json!("None"));
            settings.insert("builder_recoverer".into(), json!("CPCTPlus"));
        }
        _ => {}
    }
    match ch.weighted(&[2, 1, 1]) {
        1 => {
            settings.insert("serialisation".into(), json!("Fixed"));
        }
        2 => {
            settings.insert("serialisation".into(), json!("Variable"));
        }
        _ => {}
    }
    match ch.weighted(&[2, 1, 1, 1]) {
        1 => {
            settings.insert("edition".into(), json!(2015));
        }
        2 => {
            settings.insert("edition".into(), json!(2018));
        }
        3 => {
            settings.insert("edition".into(), json!(2021));
        }
        _ => {}
    }
    if ch.chance(1, 4) {
        settings.insert("visibility".into(), json!("Public"));
    }
    match ch.weighted(&[3, 1, 1, 1, 1]) {
        1 => {
            settings.insert("builder_case_insensitive".into(), json!(true));
        }
        2 => {
            settings.insert("header_case_insensitive".into(), json!(true));
        }
        3 => {
            settings.insert("builder_dot_matches_new_line".into(), json!(false));
        }
        4 => {
            settings.insert("header_dot_matches_new_line".into(), json!(false));
        }
        _ => {}
    }
    if ch.chance(1, 3) {
        settings.insert("reserved_rule".into(), json!(true));
    }
    if ch.chance(1, 6) {
        // the older, deprecated but public two-step API (process_file on both builders)
        settings.insert("legacy_api".into(), json!(true));
    } else if ch.chance(1, 4) {
        // the documented default flow: sources below src/, lexer_in_src_dir / grammar_in_src_dir
        // (output below OUT_DIR, module names derived from the file names), lrlex_mod! / lrpar_mod!
        settings.insert("in_src".into(), json!(if ch.chance(1, 2) { "insrc" } else { "insrc/nested/deeper" }));
    } else if ch.chance(1, 5) {
        // rule_ids_map set by hand (right names, wrong ids) before lrpar_config: the builder
        // "links them together as required", i.e. the parser's own map is the one used
        settings.insert("stale_rule_ids_map".into(), json!(true));
    }
    // storage type of the builders' lexer types (and so of the generated modules): the batch's
    // grammars and tables are far below the limits of u8
    match ch.weighted(&[4, 2, 1]) {
        1 => {
            settings.insert("storaget".into(), json!("u16"));
        }
        2 => {
            settings.insert("storaget".into(), json!("u8"));
        }
        _ => {}
    }
    if ch.chance(1, 2) {
        settings.insert("epps".into(), json!(ch.range(0, 3)));
        settings.insert("epp_first".into(), json!(ch.pick(8)));
    }
    let reserved = settings.contains_key("reserved_rule");
    let ytext = render_y(&ag, &kind, &settings);
    let ltext = render_l(&ag, &settings);
    let mut inputs = vec![];
    for _ in 0..7 {
        let toks = gen_input(ch, &ag, 8, &[3, 4, 1]);
        let mut s = String::new();
        for t in toks {
            let w = if reserved && t == 0 && ch.chance(1, 3) { "w0xx".to_string() } else { format!("w{t}x") };
            s.push_str(&if ch.chance(1, 8) { w.to_uppercase() } else { w });
            s.push_str(*ch.choose(&[" ", " ", "\n", "\t ", " c\nc "]));
        }
        if ch.chance(1, 8) {
            s.push_str("? w0x");
        }
        inputs.push(s);
    }
    Some(Pair {
        id,
        kind,
        ytext,
        ltext,
        settings,
        inputs,
        rules: ag.rules.iter().map(|r| r.name.clone()).collect(),
        // N_* constants only exist for identifier-like token names
        ids: vec![],
        ident_tokens: ag
            .tokens
            .iter()
            .filter(|t| {
                let mut cs = t.chars();
                cs.next().map(|c| c.is_ascii_alphabetic() || c == '_').unwrap_or(false) && cs.all(|c| c.is_ascii_alphanumeric() || c == '_')
            })
            .cloned()
            .collect(),
    })
}

/// A lexer-only item: a specification from the lexer generators (start states with push / pop /
/// replace targets, prefixes, every kind of escape, flags in a %grmtools section, varied
/// rendering), ids for its named rules, inputs sampled from its rules.
pub fn gen_lex_pair(ch: &mut Choices, id: u64) -> Pair {
    use crate::genr::lexspec::{RenderOpts, gen_al, render};
    let mut al = gen_al(ch, 5);
    // flags in the %grmtools section (mode 0), through the builder's methods and no section (1),
    // or both (2): a section, and builder methods that set some flags again - documented: "Setting
    // this flag will override the same flag within a %grmtools section"
    let mode = ch.pick(3);
    // mode 2: the section and the builder disagree about a flag whose effect shows in the lexemes
    let mut forced: Option<(&'static str, bool)> = None;
    if mode == 2 {
        let b = ch.chance(1, 2);
        if ch.chance(2, 3) {
            al.flags.case_insensitive = Some(b);
            forced = Some(("case_insensitive", !b));
        } else {
            al.flags.dot_matches_new_line = Some(b);
            forced = Some(("dot_matches_new_line", !b));
        }
    }
    let o = RenderOpts::generate(ch, al.rules.len(), mode != 1);
    let (ltext, _) = render(&al, &o);
    let mut settings = serde_json::Map::new();
    if mode == 1 {
        let mut fl = serde_json::Map::new();
        for (k, v) in al.flags.entries() {
            fl.insert(k.to_string(), json!(v));
        }
        for (k, v) in al.flags.num_entries() {
            fl.insert(k.to_string(), json!(v));
        }
        settings.insert("rt_flags".into(), Value::Object(fl.clone()));
        settings.insert("builder_flags".into(), Value::Object(fl));
    } else if mode == 2 {
        let mut bf = serde_json::Map::new();
        if let Some((k, v)) = forced {
            bf.insert(k.to_string(), json!(v));
        }
        let n = ch.range(0, 2);
        for _ in 0..n {
            let k = *ch.choose(&["case_insensitive", "dot_matches_new_line", "multi_line", "swap_greed", "octal", "posix_escapes", "allow_wholeline_comments", "case_insensitive"]);
            bf.insert(k.to_string(), json!(ch.chance(1, 2)));
        }
        // in force: the section's flags, overridden by the builder's
        let mut eff = serde_json::Map::new();
        for (k, v) in al.flags.entries() {
            eff.insert(k.to_string(), json!(v));
        }
        for (k, v) in al.flags.num_entries() {
            eff.insert(k.to_string(), json!(v));
        }
        for (k, v) in &bf {
            eff.insert(k.clone(), v.clone());
        }
        settings.insert("rt_flags".into(), Value::Object(eff));
        settings.insert("builder_flags".into(), Value::Object(bf));
        settings.insert("section_and_builder".into(), json!(true));
    }
    match ch.weighted(&[4, 2, 1]) {
        1 => {
            settings.insert("storaget".into(), json!("u16"));
        }
        2 => {
            settings.insert("storaget".into(), json!("u8"));
        }
        _ => {}
    }
    let mut inputs = crate::props::c09::gen_inputs(ch, &al, 6);
    // the same inputs with the case of every letter swapped, and with a newline in the middle:
    // what case_insensitive and dot_matches_new_line decide
    let swapped: Vec<String> = inputs
        .iter()
        .take(3)
        .map(|i| i.chars().map(|c| if c.is_ascii_lowercase() { c.to_ascii_uppercase() } else { c.to_ascii_lowercase() }).collect())
        .collect();
    let with_nl: Vec<String> = inputs
        .iter()
        .take(2)
        .map(|i| {
            let cut = (0..=i.len()).filter(|k| i.is_char_boundary(*k)).nth(i.chars().count() / 2).unwrap_or(0);
            format!("{}\n{}", &i[..cut], &i[cut..])
        })
        .collect();
    inputs.extend(swapped);
    inputs.extend(with_nl);
    let mut ids = vec![];
    let mut seen = std::collections::BTreeSet::new();
    for (i, r) in al.rules.iter().enumerate() {
        if let Some(n) = &r.name {
            if seen.insert(n.clone()) && !ch.chance(1, 6) {
                // (1/6 of the names stay without an id: rules the parser does not know)
                ids.push((n.clone(), 1 + i as u32));
            }
        }
    }
    Pair {
        id,
        kind: "LexOnly".into(),
        ytext: String::new(),
        ltext,
        settings,
        inputs,
        rules: vec![],
        ident_tokens: vec![],
        ids,
    }
}

/// Fixed probes, one per boolean lexer flag: a tiny specification whose lexemes on the probe
/// inputs depend on the flag, built with the flag at its non-default value - through the
/// %grmtools section or through the builder, alternating - so that every flag's way into the
/// generated `lexerdef()` is exercised in every batch (random items rarely combine a flag with
/// the one expression shape and input it matters for).
pub fn flag_probes(first_id: u64, salt: u64) -> Vec<Pair> {
    let probes: &[(&str, bool, &str, &[&str])] = &[
        ("multi_line", false, "a$ 'AEND'\na 'A'\n\\n 'NL'\n", &["a\na", "a", "a\n"]),
        ("dot_matches_new_line", false, "a.b 'ADB'\na 'A'\nb 'B'\n\\n 'NL'\n", &["a\nb", "axb"]),
        ("case_insensitive", true, "abc 'ABC'\n[A-Z]+ 'UP'\n[ ]+ ;\n", &["ABC abc", "aBc", "XYZ"]),
        ("swap_greed", true, "a+ 'AS'\nb 'B'\n", &["aaab", "a"]),
        ("octal", false, "\\141 'A'\nb 'B'\n", &["ab"]),
        ("posix_escapes", true, "\\b 'BS'\nb 'B'\nx 'X'\n", &["\u{8}bx", "xb"]),
        ("ignore_whitespace", true, "a\\ b c 'ABC'\nc 'C'\n", &["a bc", "abc", "c"]),
        ("allow_wholeline_comments", true, "// a comment 'X'\na 'A'\n", &["a", "// a"]),
    ];
    let mut v = vec![];
    for (k, (flag, val, rules, inputs)) in probes.iter().enumerate() {
        let through_builder = (k as u64 + salt) % 2 == 0;
        let mut settings = serde_json::Map::new();
        let ltext = if through_builder {
            let mut fl = serde_json::Map::new();
            fl.insert(flag.to_string(), json!(val));
            settings.insert("rt_flags".into(), Value::Object(fl.clone()));
            settings.insert("builder_flags".into(), Value::Object(fl));
            format!("%%\n{rules}")
        } else {
            format!("%grmtools{{{}{flag}}}\n%%\n{rules}", if *val { "" } else { "!" })
        };
        settings.insert("flag_probe".into(), json!(flag));
        // every named rule gets an id
        let mut ids = vec![];
        for (i, l) in rules.lines().enumerate() {
            if let Some(n) = l.rsplit('\'').nth(1) {
                if !ids.iter().any(|(x, _): &(String, u32)| x == n) {
                    ids.push((n.to_string(), 1 + i as u32));
                }
            }
        }
        v.push(Pair {
            id: first_id + k as u64,
            kind: "LexOnly".into(),
            ytext: String::new(),
            ltext,
            settings,
            inputs: inputs.iter().map(|s| s.to_string()).collect(),
            rules: vec![],
            ident_tokens: vec![],
            ids,
        });
    }
    v
}

fn stream(seed: u64, n: usize) -> Vec<u32> {
    let mut x = seed;
    (0..n)
        .map(|_| {
            x = x.wrapping_add(0x9E3779B97F4A7C15);
            let mut z = x;
            z = (z ^ (z >> 30)).wrapping_mul(0xBF58476D1CE4E5B9);
            z = (z ^ (z >> 27)).wrapping_mul(0x94D049BB133111EB);
            (z ^ (z >> 31)) as u32
        })
        .collect()
}

fn write_batch(dir: &Path, pairs: &[Pair]) {
    let gen_dir = dir.join("gen");
    let _ = std::fs::create_dir_all(&gen_dir);
    if let Ok(rd) = std::fs::read_dir(&gen_dir) {
        for e in rd.flatten() {
            let n = e.file_name().to_string_lossy().to_string();
            if (n.starts_with('g') || n.starts_with('x')) && (n.ends_with(".y") || n.ends_with(".l")) {
                let _ = std::fs::remove_file(e.path());
            }
        }
    }
    let mut specs = vec![];
    let mut lexers = vec![];
    for p in pairs {
        if p.kind == "LexOnly" {
            std::fs::write(gen_dir.join(format!("x{}.l", p.id)), &p.ltext).unwrap();
            lexers.push(json!({"id": p.id, "ids": p.ids, "inputs": p.inputs, "settings": p.settings}));
            continue;
        }
        std::fs::write(gen_dir.join(format!("g{}.y", p.id)), &p.ytext).unwrap();
        std::fs::write(gen_dir.join(format!("g{}.l", p.id)), &p.ltext).unwrap();
        specs.push(json!({"id": p.id, "kind": p.kind, "settings": p.settings, "inputs": p.inputs, "rules": p.rules, "ident_tokens": p.ident_tokens}));
    }
    std::fs::write(gen_dir.join("spec.json"), serde_json::to_string_pretty(&json!({"pairs": specs, "lexers": lexers})).unwrap()).unwrap();
}

/// Runs one batch: returns the parsed CTBATCH report or an error text.
fn run_batch(engine: &Path, pairs: &[Pair]) -> Result<Value, (String, String)> {
    write_batch(&engine.join("ctbatch"), pairs);
    let out = Command::new("cargo")
        .args(["build", "--release", "--offline", "-q", "-p", "ctbatch"])
        .current_dir(engine)
        .env("CARGO_NET_OFFLINE", "true")
        .env_remove("RUSTFLAGS")
        .output()
        .map_err(|e| ("infra".to_string(), e.to_string()))?;
    if !out.status.success() {
        let err = String::from_utf8_lossy(&out.stderr).to_string();
        // a rustc *error* located in a generated module (not in the harness' own glue)
        let mut in_error = false;
        let mut generated = false;
        for l in err.lines() {
            if l.starts_with("error") {
                in_error = true;
            } else if l.starts_with("warning") {
                in_error = false;
            } else if in_error && l.trim_start().starts_with("-->") && (l.contains(".y.rs") || l.contains(".l.rs")) {
                generated = true;
            }
        }
        let kind = if generated { "generated-code" } else { "infra" };
        return Err((kind.to_string(), err));
    }
    // The binary is run three times: the first use of every generated module by eight threads
    // at once (C15) happens once per process. The report of the first run counts; mismatches of
    // the later runs are added to it.
    let mut first: Option<Value> = None;
    let mut last_fail = (String::new(), String::new(), String::new());
    for _ in 0..3 {
        let run = Command::new(engine.join("target/release/ctbatch")).env("RUST_BACKTRACE", "0").output().map_err(|e| ("infra".to_string(), e.to_string()))?;
        let txt = String::from_utf8_lossy(&run.stdout).to_string();
        let mut rep: Option<Value> = None;
        for l in txt.lines().rev() {
            if let Some(j) = l.strip_prefix("CTBATCH ") {
                rep = Some(serde_json::from_str(j).map_err(|e| ("infra".to_string(), e.to_string()))?);
                break;
            }
        }
        match (rep, &mut first) {
            (Some(r), None) => first = Some(r),
            (Some(r), Some(f)) => {
                let more = r["mismatches"].as_array().cloned().unwrap_or_default();
                if let Some(a) = f["mismatches"].as_array_mut() {
                    for m in more {
                        if !a.contains(&m) {
                            a.push(m);
                        }
                    }
                }
                if let Some(n) = f["process_runs"].as_u64() {
                    f["process_runs"] = json!(n + 1);
                } else {
                    f["process_runs"] = json!(2);
                }
            }
            (None, _) => {
                last_fail = (format!("{:?}", run.status), txt.chars().take(2000).collect(), String::from_utf8_lossy(&run.stderr).chars().take(3000).collect());
                first = None;
                break;
            }
        }
    }
    if let Some(f) = first {
        return Ok(f);
    }
    let (status, txt, stderr) = last_fail;
    Err((
        "batch-binary".to_string(),
        format!("status {status}\nstdout {txt}\nstderr {stderr}"),
    ))
}

pub fn custom_run(cfg: &RunCfg) -> i32 {
    let t0 = std::time::Instant::now();
    let engine = cfg.root.join("engine");
    let nbatches = cfg.tier.pick(1, 10);
    let per_batch = cfg.tier.pick(100, 120);
    let mut all_mismatches: Vec<(Pair, Value)> = vec![];
    let mut programs = 0u64;
    let mut comparisons = 0u64;
    let mut samples: Vec<Value> = vec![];
    let mut classes: std::collections::BTreeMap<String, u64> = Default::default();
    let mut nontrivial: std::collections::HashSet<u64> = Default::default();
    // stored replays are part of the first batch
    let mut replay_pairs: Vec<Pair> = vec![];
    if let Ok(rd) = std::fs::read_dir(cfg.root.join("replays").join("C13")) {
        let mut files: Vec<_> = rd.flatten().map(|e| e.path()).filter(|p| p.extension().map(|e| e == "json").unwrap_or(false)).collect();
        files.sort();
        for f in files {
            if let Ok(v) = serde_json::from_str::<Value>(&std::fs::read_to_string(&f).unwrap_or_default()) {
                if let Ok(mut p) = serde_json::from_value::<Pair>(v["case"].clone()) {
                    p.id = 9000 + replay_pairs.len() as u64;
                    replay_pairs.push(p);
                }
            }
        }
    }
    let mut infra_error: Option<String> = None;
    for bi in 0..nbatches {
        let mut pairs: Vec<Pair> = if bi == 0 { replay_pairs.clone() } else { vec![] };
        let mut k = 0u64;
        let mut attempts = 0u64;
        while (pairs.len() as u64) < per_batch as u64 + if bi == 0 { replay_pairs.len() as u64 } else { 0 } && attempts < 1200 {
            attempts += 1;
            let s = stream(hash64(&format!("{}/C13/{bi}/{attempts}", cfg.seed)), 500);
            let mut ch = Choices::new(&s);
            if let Some(p) = gen_pair(&mut ch, bi as u64 * 1000 + k) {
                pairs.push(p);
                k += 1;
            }
        }
        // lexer-only items (ids 5000..) ride in the same batch
        let nlex = cfg.tier.pick(60, 80);
        for k in 0..nlex {
            let s = stream(hash64(&format!("{}/C13/lex/{bi}/{k}", cfg.seed)), 600);
            let mut ch = Choices::new(&s);
            pairs.push(gen_lex_pair(&mut ch, 5000 + bi as u64 * 100 + k as u64));
        }
        pairs.extend(flag_probes(5000 + bi as u64 * 100 + 90, cfg.seed.wrapping_add(bi as u64)));
        match run_batch(&engine, &pairs) {
            Ok(rep) => {
                programs += rep["pairs_run"].as_u64().unwrap_or(0);
                comparisons += rep["comparisons"].as_u64().unwrap_or(0);
                if let Some(cs) = rep["classes"].as_object() {
                    for (k, v) in cs {
                        *classes.entry(k.clone()).or_default() += v.as_u64().unwrap_or(0);
                    }
                }
                for s in rep["samples"].as_array().cloned().unwrap_or_default() {
                    if samples.len() < 6 {
                        samples.push(s);
                    }
                }
                for p in &pairs {
                    if !p.settings.is_empty() || p.inputs.iter().any(|i| i.contains('?')) || p.kind == "LexOnly" {
                        nontrivial.insert(hash64(&format!("{}{}", p.ytext, p.ltext)));
                    }
                }
                for m in rep["mismatches"].as_array().cloned().unwrap_or_default() {
                    if let Some(p) = pairs.iter().find(|p| Some(p.id) == m["id"].as_u64()) {
                        all_mismatches.push((p.clone(), m));
                    }
                }
                for b in rep["build_report"].as_array().cloned().unwrap_or_default() {
                    if b["built"].as_bool() == Some(false) {
                        *classes.entry("builder-refused-pair".into()).or_default() += 1;
                        eprintln!("note: builders refused pair {}: {}", b["id"], b["error"].as_str().unwrap_or("").chars().take(300).collect::<String>());
                    }
                }
            }
            Err((kind, e)) => {
                if kind == "generated-code" {
                    // which pair? the error text names the generated file
                    let id = pairs.iter().find(|p| e.contains(&format!("g{}.y.rs", p.id)) || e.contains(&format!("g{}.l.rs", p.id)) || e.contains(&format!("x{}.l.rs", p.id)));
                    if let Some(p) = id {
                        all_mismatches.push((p.clone(), json!({"what": "generated module does not compile", "rustc": e.chars().take(3000).collect::<String>()})));
                        continue;
                    }
                }
                infra_error = Some(format!("{kind}: {}", e.chars().take(3000).collect::<String>()));
                break;
            }
        }
    }
    // leave the batch crate in its committed (empty) state
    write_batch(&engine.join("ctbatch"), &[]);
    let _ = std::fs::remove_file(engine.join("ctbatch/gen/build_report.json"));

    let wall = t0.elapsed().as_secs_f64();
    if samples.is_empty() {
        samples.push(json!("no sample (no pair was run)"));
    }
    let evidence = json!({
        "property_id": "C13",
        "tier": cfg.tier.name(),
        "seed": cfg.seed,
        "level": "translation_validation",
        "coverage": {
            "programs": programs,
            "disagreements_checked": comparisons,
            "evaluations": comparisons,
            "distinct_nontrivial": nontrivial.len(),
            "rule": "Pairs (grammar, lexer) whose token names agree: AG from strata rand/expr/lr1/repo (cycle-free, loop-free tables, random precedence and %avoid_insert), kinds Grmtools and Original(UserAction) (user actions from a fixed template recording production, $span, every $i as Ok/Err lexeme or child string, $lexer and $$ (one before and one after all other references); %parse-param absent / a u64 by value / a shared RefCell log every action appends to / a reference behind %parse-generics; with the log, some Grmtools rules have the unit action type so that their actions are visible only in the log; every third action body spans two lines, every other one begins with a string literal holding `//` and `/*`), Original(GenericParseTree), Original(NoAction); settings sampled: the builders' API (the one-call lrpar_config flow with explicit paths and module names; for 1/6 of the pairs the deprecated process_file on both builders; for 1/5 lexer_in_src_dir / grammar_in_src_dir with sources below src/ in a directory one or three levels deep, derived output paths and module names, included through lrlex_mod!/lrpar_mod!; for 1/8 a rule_ids_map with the right names and rotated ids set by hand before lrpar_config, which the parser's own map has to replace), storage type u32 / u16 / u8 of the builders' lexer types (the run-time side uses the same width), yacckind through builder or %grmtools header (for 1/6 of the pairs through the builder while the header names another kind: the builder's wins), recoverer CPCT+/None through builder and/or header, serialisation format, Rust edition, visibility, lexer flags through builder or header, for 1/3 of the pairs a reserved-word rule in the lexer that the grammar does not know and that wins over a token's rule on some inputs; 7 inputs per pair (sentences, near misses, upper-cased words, multi-line skip text, a lexing error). One cargo build of engine/ctbatch runs the real CTLexerBuilder/CTParserBuilder per pair in its build script; its binary lexes and parses every input with the generated modules and with LRNonStreamingLexerDef/RTParserBuilder built from the same source strings (user actions evaluated natively) and compares lexemes, value/tree, errors with repair sets, token_epp, R_*/N_* constants; each module's first parse is also made by 8 barrier-released threads (C15), and the binary is run in three processes (one first-use race per module and process). programs = pairs compiled and run; disagreements_checked = comparisons. Besides the pairs, eight fixed flag probes per batch (one tiny lexer per boolean flag whose lexemes on its probe inputs depend on the flag, built with the flag at its non-default value through the section or the builder, alternating) and 60 (thorough: 80 per batch) lexer-only items: a specification from the lexer generators of C09/C11 (start states with push/pop/replace targets, <..> prefixes, every kind of escape, flags in a %grmtools section, through the builder's flag methods (no section), or both with the builder overriding the section - one third each -, varied rendering) built by CTLexerBuilder with a user-supplied rule_ids_map that leaves 1/6 of the rule names without an id; the generated module's definition (rules: id, name, name span, expression, start states, target; start states with their spans) and its lexemes on 6 inputs sampled from the rules must equal those of LRNonStreamingLexerDef::from_str + set_rule_ids on the same text, and one side refusing what the other accepts is a mismatch. Non-trivial pair: non-default setting or an input with a lexing error, or a lexer-only item; distinct by hash(sources).",
            "samples": samples,
            "classes": classes,
            "replayed": replay_pairs.len(),
        },
        "assumptions": ["when an error has several equally ranked repair sequences only the results up to the first error are compared (the order among them is documented as non-deterministic)", "recovery runs under the cfg(grmtools_verif) hooks on both sides (budget override, expansion cap 1500); capped inputs are not compared", "the batch's grammars, tables and lexers are far below the limits of u8, so every pair can be built with every width (the limits themselves are C20's business)"],
        "wall_s": wall,
        "violations": all_mismatches.len(),
    });
    let _ = std::fs::create_dir_all(cfg.root.join("evidence"));
    std::fs::write(cfg.root.join("evidence/C13.json"), serde_json::to_string_pretty(&evidence).unwrap()).unwrap();
    if let Some(e) = infra_error {
        eprintln!("C13: could not run the batch: {e}");
        println!("C13 {} seed={} programs={programs} comparisons={comparisons} wall={wall:.1}s exit=2", cfg.tier.name(), cfg.seed);
        return 2;
    }
    let mut exit = 0;
    if !all_mismatches.is_empty() {
        let dir = cfg.root.join("work").join("violations");
        let _ = std::fs::create_dir_all(&dir);
        for (p, m) in all_mismatches.iter().take(3) {
            let path = dir.join(format!("C13-{:016x}.json", hash64(&format!("{}{}", p.ytext, p.ltext))));
            let v = json!({"property": "C13", "seed": cfg.seed, "tier": cfg.tier.name(), "kind": "wrong", "signature": format!("C13/{}", m["what"].as_str().unwrap_or("mismatch")), "detail": m, "case": p});
            std::fs::write(&path, serde_json::to_string_pretty(&v).unwrap()).unwrap();
            eprintln!("violation: {}", serde_json::to_string(m).unwrap().chars().take(900).collect::<String>());
            println!("VIOLATION property=C13 replay={}", path.display());
        }
        exit = 1;
    }
    println!(
        "C13 {} seed={} programs={programs} comparisons={comparisons} distinct_nontrivial={} classes={:?} wall={wall:.1}s exit={exit}",
        cfg.tier.name(),
        cfg.seed,
        nontrivial.len(),
        classes
    );
    exit
}

impl Prop for C13 {
    fn id(&self) -> &'static str {
        "C13"
    }
    fn stream_len(&self, _tier: Tier) -> usize {
        500
    }
    fn cases(&self, _tier: Tier) -> u32 {
        0
    }
    fn decode(&self, _choices: &[u32], _tier: Tier) -> Value {
        Value::Null
    }
    fn evaluate(&self, _case: &Value) -> Outcome {
        Outcome::new()
    }
    fn rule(&self) -> String {
        "see evidence (custom batch run)".into()
    }
    fn level(&self) -> &'static str {
        "translation_validation"
    }
}

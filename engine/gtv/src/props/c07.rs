//! C07 - error recovery always progresses and the error list matches the outcome.

use crate::exec::{Outcome, Prop, Tier};
use crate::genr::grammar::render_simple;
use crate::props::recovery::*;
use serde_json::Value;

pub struct C07;

impl Prop for C07 {
    fn id(&self) -> &'static str {
        "C07"
    }
    fn fuzz_target(&self) -> Option<&'static str> {
        Some("fz_choices")
    }
    fn fuzz_runs(&self) -> u64 {
        40000
    }
    fn stream_len(&self, _tier: Tier) -> usize {
        700
    }
    fn cases(&self, tier: Tier) -> u32 {
        tier.pick(72_000, 1_200_000)
    }
    fn watchdog_ms(&self) -> u64 {
        20_000
    }
    fn decode(&self, choices: &[u32], tier: Tier) -> Value {
        serde_json::to_value(decode_rcase(choices, tier, 8, tier.pick(24, 30), 6)).unwrap()
    }
    fn abnormal_signature(&self, case: &Value, kind: &str) -> String {
        if case.get("probe_nonconsuming_loop").and_then(|x| x.as_bool()).unwrap_or(false) {
            format!("{kind}:C07/nonconsuming-reduce-loop")
        } else {
            format!("{kind}:C07")
        }
    }
    fn rule(&self) -> String {
        "AG from strata rand/expr/lr1/repo (cycle-free, with and without conflicts and precedence, random %avoid_insert), tables that can reduce forever without consuming input excluded and counted (open finding); 8 inputs per grammar of length <=24..30 built from sentences with 1-6 edits, random strings, empty input; token costs all 1 / 1..4 / 1..255. CPCT+ under the hooks (budget override, expansion cap 1500; cap hit => input not judged). Oracle: invariants over (value, errors): returns; error lexemes are input lexemes or a zero-length end-of-input lexeme; indices strictly increase and are >= min(prev+3, n); only the last error may lack repairs; value <=> every error has repairs; value and no errors => recovery-off parse accepts with the same tree; for a third of the erroneous inputs the parse is repeated with the recovery time budget already used up (hook budget 0): it must return without a value, with the one error at the same lexeme and no repairs; for a quarter of the inputs one lexeme is turned into unlexable text (the harness lexer yields an error item and stops or goes on): parse_generictree / parse_map / parse_actions, recovery off and on, must report that lexing error and never a value with an empty error list. Evaluation = one (grammar,input,costs). Non-trivial: >=2 errors, or an error at end of input, or a last error without repairs; distinct by hash(grammar,input,costs).".into()
    }
    fn assumptions(&self) -> Vec<String> {
        vec!["termination is observed through a 20 s watchdog re-confirmed with 200 s in a fresh process".into()]
    }
    fn required_classes(&self, _tier: Tier) -> Vec<&'static str> {
        vec!["c07:>=2-errors", "c07:error-at-eof", "c07:last-error-unrepaired", "grammar-with-conflicts", "grammar-conflict-free", "c07:lexing-error-in-input", "c07:budget-exhausted"]
    }
    fn evaluate(&self, case: &Value) -> Outcome {
        let mut o = Outcome::new();
        o.evals = 1;
        if case.get("probe_nonconsuming_loop").and_then(|x| x.as_bool()).unwrap_or(false) {
            // stored replay of the open finding: run the real parser (recovery off) on a table
            // that reduces forever without consuming input
            let rc: RCase = serde_json::from_value(case.clone()).unwrap();
            if let Ok(b) = crate::harness::build(&rc.ag) {
                for (input, layout) in rc.inputs.iter().zip(rc.layouts.iter()) {
                    let _ = crate::harness::parse_tree(&b, input, layout, lrpar::RecoveryKind::None, None);
                }
            }
            return o;
        }
        let rc: RCase = serde_json::from_value(case.clone()).unwrap();
        let ag = &rc.ag;
        let b = match setup(&mut o, ag, "C07") {
            Setup::Ready(b) => b,
            Setup::Done => return o,
        };
        let src = render_simple(ag);
        o.evals = 0;
        for (input, layout) in rc.inputs.iter().zip(rc.layouts.iter()) {
            let p = match recovering_parse(&b, input, layout, &rc.costs) {
                Ok(Some(p)) => p,
                Ok(None) => {
                    o.class("cap-hit");
                    continue;
                }
                Err(e) => {
                    o.fail("harness", "C07/harness", e);
                    return o;
                }
            };
            o.evals += 1;
            let ctx = |m: &str| format!("{m}; input {input:?} costs {:?}\n{src}", rc.costs);
            if !check_c07(&mut o, &b, input, layout, &p, &ctx) {
                return o;
            }
            // an exhausted time budget: the search gives up at once, the parse still returns, with
            // one error that has no repairs, at the same lexeme, and without a value
            if !p.errs.is_empty() && (input.len() + layout.tail) % 3 == 0 {
                o.class("c07:budget-exhausted");
                match crate::harness::parse_tree_no_budget(&b, input, layout, Some(&rc.costs)) {
                    Err(e) => {
                        o.fail("harness", "C07/harness", e);
                        return o;
                    }
                    Ok((tree, errs)) => {
                        if tree.is_some() || errs.len() != 1 || !errs[0].repairs.is_empty() || errs[0].start != p.errs[0].start || errs[0].tok_id != p.errs[0].tok_id {
                            o.fail(
                                "wrong",
                                "C07/budget-exhausted",
                                ctx(&format!("with no recovery time left: value {}, errors {:?}; expected no value and the one error at offset {} without repairs", tree.is_some(), errs.iter().map(|e| (e.start, e.repairs.len())).collect::<Vec<_>>(), p.errs[0].start)),
                            );
                            return o;
                        }
                    }
                }
            }
            // the same input with one lexeme turned into unlexable text: the lexing error must
            // not get lost (a value with an empty error list would claim the input was accepted)
            if !input.is_empty() && (input.len() + layout.tail) % 4 == 0 {
                let k = (input.iter().sum::<usize>() + layout.tail) % input.len();
                let goes_on = layout.tail % 2 == 1;
                let start = layout.spans()[k].0;
                for rk in [lrpar::RecoveryKind::None, lrpar::RecoveryKind::CPCTPlus] {
                    #[cfg(grmtools_verif)]
                    {
                        lrpar::verif_hooks::set_budget_ms(Some(86_400_000));
                        lrpar::verif_hooks::set_expansion_cap(crate::harness::RECOVERY_CAP);
                    }
                    for (mode, value, _npe, lex) in crate::harness::parse_with_lex_error(&b, input, layout, rk, k, goes_on) {
                        o.class("c07:lexing-error-in-input");
                        if value && _npe == 0 && lex.is_empty() {
                            o.fail("wrong", "C07/lexing-error-lost/value-and-no-errors", ctx(&format!("{mode} ({rk:?}): lexeme {k} is unlexable text (the lexer reports an error at {start}{}), yet a value and an empty error list came back", if goes_on { " and goes on" } else { " and stops" })));
                            return o;
                        }
                        if !lex.contains(&start) {
                            o.fail("wrong", "C07/lexing-error-lost", ctx(&format!("{mode} ({rk:?}): lexeme {k} is unlexable text (the lexer reports an error at {start}), but the error list holds no lexing error there (lexing errors at {lex:?})")));
                            return o;
                        }
                    }
                }
            }
            if c07_nontrivial(&p, input, &b) {
                o.nontrivial.push(key(ag, input, &rc.costs));
                if o.sample.is_none() {
                    o.sample = Some(serde_json::json!({
                        "grammar": src,
                        "input": input.iter().map(|t| ag.tokens[*t].clone()).collect::<Vec<_>>(),
                        "errors": p.errs.len(),
                        "value": p.tree.is_some(),
                    }));
                }
            }
        }
        if o.evals == 0 {
            o.evals = 1;
        }
        o
    }
}

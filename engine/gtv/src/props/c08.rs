//! C08 - actions run once per reduction, bottom-up, with child values and the matched span.

use crate::exec::{Outcome, Prop, Tier, hash64};
use crate::genr::grammar::{GenOpts, Sym, render_simple};
use crate::harness::{BuildErr, Built, ITree, Layout, VLexer, build, convert_errors, parse_tree, table_loop_witness};
use crate::props::c01::{Case, decode_case};
use cfgrammar::{RIdx, Span, TIdx};
use lrlex::{DefaultLexeme, DefaultLexerTypes};
use lrpar::parser::AStackType;
use lrpar::{Lexeme, NonStreamingLexer, RTParserBuilder, RecoveryKind};
use serde_json::Value;
use std::cell::RefCell;

pub struct C08;

fn opts(tier: Tier) -> GenOpts {
    GenOpts {
        max_rules: tier.pick(5, 7),
        max_prods: 4,
        max_syms: 4,
        max_tokens: 4,
        allow_cycles: false,
        allow_unproductive: false,
        strata: [8, 1, 1, 2],
        precedence: true,
        avoid_insert: false,
        pad_tokens: false,
    }
}

#[derive(Clone, Debug, PartialEq)]
enum Arg {
    Lexeme {
        tok_id: usize,
        start: usize,
        len: usize,
        faulty: bool,
    },
    Value(usize),
}

#[derive(Clone, Debug)]
struct Rec {
    pidx: usize,
    ridx: usize,
    span: (usize, usize),
    args: Vec<Arg>,
    param: u64,
}

const PARAM: u64 = 0x5eed_cafe;
pub const CAP: u64 = crate::harness::RECOVERY_CAP;

type LT = DefaultLexerTypes<u32>;

/// Run parse_actions with one recording closure per production.
fn run_actions(
    b: &Built<u32>,
    input: &[usize],
    layout: &Layout,
    rk: RecoveryKind,
) -> Result<(Option<usize>, Vec<Rec>, Vec<crate::harness::PErr>, bool), String> {
    let toks: Vec<usize> = input.iter().map(|t| b.tok_usize(*t)).collect();
    let lexer = VLexer::<u32>::new(&toks, layout);
    let log: RefCell<Vec<Rec>> = RefCell::new(vec![]);
    let nprods = usize::from(b.grm.prods_len());
    type Act<'x> = Box<
        dyn Fn(
                RIdx<u32>,
                &dyn NonStreamingLexer<LT>,
                Span,
                std::vec::Drain<AStackType<DefaultLexeme<u32>, usize>>,
                u64,
            ) -> usize
            + 'x,
    >;
    let mut boxed: Vec<Act> = vec![];
    for p in 0..nprods {
        let log = &log;
        boxed.push(Box::new(move |ridx, _lexer, span, args, param| {
            let args: Vec<Arg> = args
                .map(|a| match a {
                    AStackType::ActionType(v) => Arg::Value(v),
                    AStackType::Lexeme(l) => Arg::Lexeme {
                        tok_id: l.tok_id() as usize,
                        start: l.span().start(),
                        len: l.span().len(),
                        faulty: l.faulty(),
                    },
                })
                .collect();
            let mut lg = log.borrow_mut();
            lg.push(Rec {
                pidx: p,
                ridx: usize::from(ridx),
                span: (span.start(), span.end()),
                args,
                param,
            });
            lg.len() - 1
        }));
    }
    let refs: Vec<
        &dyn Fn(
            RIdx<u32>,
            &dyn NonStreamingLexer<LT>,
            Span,
            std::vec::Drain<AStackType<DefaultLexeme<u32>, usize>>,
            u64,
        ) -> usize,
    > = boxed.iter().map(|b| &**b).collect();
    let is_rec = matches!(rk, RecoveryKind::CPCTPlus);
    if is_rec {
        lrpar::verif_hooks::set_budget_ms(Some(86_400_000));
        lrpar::verif_hooks::set_expansion_cap(CAP);
    }
    let pb = RTParserBuilder::<u32, LT>::new(&b.grm, &b.st).recoverer(rk);
    let (v, errs) = pb.parse_actions(&lexer, &refs, PARAM);
    let hit = if is_rec {
        let h = lrpar::verif_hooks::cap_hit();
        lrpar::verif_hooks::set_expansion_cap(u64::MAX);
        h
    } else {
        false
    };
    let errs = convert_errors(b, &errs)?;
    drop(refs);
    drop(boxed);
    Ok((v, log.into_inner(), errs, hit))
}

/// Leaves (start,len,faulty,tok) of the subtree rooted at record `id`, left to right.
fn leaves_of(log: &[Rec], id: usize, out: &mut Vec<(usize, usize, bool, usize)>) {
    for a in &log[id].args {
        match a {
            Arg::Lexeme {
                tok_id,
                start,
                len,
                faulty,
            } => out.push((*start, *len, *faulty, *tok_id)),
            Arg::Value(v) => leaves_of(log, *v, out),
        }
    }
}

fn postorder(log: &[Rec], id: usize, out: &mut Vec<usize>) {
    for a in &log[id].args {
        if let Arg::Value(v) = a {
            if *v < log.len() && *v < id {
                postorder(log, *v, out);
            } else {
                out.push(usize::MAX);
            }
        }
    }
    out.push(id);
}

fn to_itree(b: &Built<u32>, log: &[Rec], id: usize) -> ITree {
    ITree::Node {
        rule: b.ag_rule(RIdx(log[id].ridx as u32)),
        kids: log[id]
            .args
            .iter()
            .map(|a| match a {
                Arg::Lexeme {
                    tok_id,
                    start,
                    len,
                    faulty,
                } => ITree::Leaf {
                    tok: b.ag_token(TIdx(*tok_id as u32)).unwrap_or(usize::MAX),
                    start: *start,
                    len: *len,
                    faulty: *faulty,
                },
                Arg::Value(v) => to_itree(b, log, *v),
            })
            .collect(),
    }
}

impl Prop for C08 {
    fn id(&self) -> &'static str {
        "C08"
    }
    fn fuzz_target(&self) -> Option<&'static str> {
        Some("fz_choices")
    }
    fn fuzz_runs(&self) -> u64 {
        60000
    }
    fn stream_len(&self, _tier: Tier) -> usize {
        600
    }
    fn cases(&self, tier: Tier) -> u32 {
        tier.pick(60_000, 1_000_000)
    }
    fn decode(&self, choices: &[u32], tier: Tier) -> Value {
        let c = decode_case(choices, tier, &opts(tier), 10, &[5, 4, 1]);
        serde_json::to_value(c).unwrap()
    }
    fn rule(&self) -> String {
        "AG from stratum rand rich in empty productions / nullable and unit chains (plus expr, lr1, repo), cycle-free, loop-free tables; 10 inputs each with gapped spans; recovery off on every input and recovery on (hooks, cap 1500) on erroneous ones. Oracle: parse_actions with one recording closure per production; the log must be the post-order of the tree defined by the returned root; rule, argument count/kinds/values, parameter, span = (start of first leaf, end of last leaf) or zero-length; same tree as parse_map. Evaluation = one (grammar,input,recovery mode). Non-trivial: the tree has an empty-deriving node that is the first or last child of a parent with non-empty siblings, or recovery inserted a lexeme; distinct by hash(grammar,input,mode).".into()
    }
    fn assumptions(&self) -> Vec<String> {
        vec![
            "the position of a zero-length span is not asserted".into(),
            "comparison with parse_map under recovery only when every error has at most one repair sequence (the order among equally ranked repairs is documented as non-deterministic)".into(),
        ]
    }
    fn required_classes(&self, _tier: Tier) -> Vec<&'static str> {
        vec!["empty-first-child", "empty-last-child", "empty-middle-child", "inserted-lexeme", "recovery-on", "recovery-off"]
    }
    fn evaluate(&self, case: &Value) -> Outcome {
        let case: Case = serde_json::from_value(case.clone()).unwrap();
        let mut o = Outcome::new();
        let ag = &case.ag;
        o.evals = 1;
        let src = render_simple(ag);
        let b = match build(ag) {
            Ok(b) => b,
            Err(BuildErr::Grammar(e)) => {
                o.fail("harness", "C08/grammar-rejected", format!("{e}\n{src}"));
                return o;
            }
            Err(BuildErr::Table(_)) => {
                o.discard("accept-reduce-conflict");
                return o;
            }
        };
        if (b.st.conflicts().is_some() || ag.has_precedence()) && table_loop_witness(&b).is_some() {
            o.discard("nonconsuming-reduce-loop");
            return o;
        }
        let gkey = ag.canonical_string();
        o.evals = 0;
        for (input, layout) in case.inputs.iter().zip(case.layouts.iter()) {
            for mode in 0..2 {
                let rk = if mode == 0 { RecoveryKind::None } else { RecoveryKind::CPCTPlus };
                let (root, log, errs, cap_hit) = match run_actions(&b, input, layout, rk) {
                    Ok(x) => x,
                    Err(e) => {
                        o.fail("harness", "C08/harness", e);
                        return o;
                    }
                };
                if mode == 1 && errs.is_empty() {
                    continue; // identical to mode 0
                }
                if cap_hit {
                    o.class("cap-hit");
                    continue;
                }
                o.evals += 1;
                o.class(if mode == 0 { "recovery-off" } else { "recovery-on" });
                let ctx = |m: &str| format!("{m}; input {input:?} mode {}\n{src}", if mode == 0 { "recovery off" } else { "recovery on" });
                // (2) per call
                for (id, r) in log.iter().enumerate() {
                    let pidx = cfgrammar::PIdx(r.pidx as u32);
                    if r.ridx != usize::from(b.grm.prod_to_rule(pidx)) {
                        o.fail("wrong", "C08/wrong-rule", ctx(&format!("call {id}: production {} called with rule {}", r.pidx, r.ridx)));
                        return o;
                    }
                    if r.param != PARAM {
                        o.fail("wrong", "C08/wrong-param", ctx(&format!("call {id}: parameter {:#x}", r.param)));
                        return o;
                    }
                    let prod = b.grm.prod(pidx);
                    if prod.len() != r.args.len() {
                        o.fail("wrong", "C08/arg-count", ctx(&format!("call {id}: production {} has {} symbols, {} arguments", r.pidx, prod.len(), r.args.len())));
                        return o;
                    }
                    for (i, (sym, arg)) in prod.iter().zip(r.args.iter()).enumerate() {
                        let ok = match (sym, arg) {
                            (cfgrammar::Symbol::Token(t), Arg::Lexeme { tok_id, .. }) => usize::from(*t) == *tok_id,
                            (cfgrammar::Symbol::Rule(rr), Arg::Value(v)) => *v < id && log[*v].ridx == usize::from(*rr),
                            _ => false,
                        };
                        if !ok {
                            o.fail("wrong", "C08/arg-mismatch", ctx(&format!("call {id} (production {}): argument {i} is {arg:?} for symbol {sym:?}", r.pidx)));
                            return o;
                        }
                        // without an error nothing was inserted: every lexeme handed to an action
                        // is one of the input's, as it came from the lexer (also one of length zero)
                        if errs.is_empty() {
                            if let Arg::Lexeme { start, len, faulty, .. } = arg {
                                let input_lexeme = layout.spans().contains(&(*start, *len));
                                if *faulty || !input_lexeme {
                                    o.fail(
                                        "wrong",
                                        "C08/arg-not-an-input-lexeme",
                                        ctx(&format!("call {id} (production {}): argument {i} is {arg:?} although the parse reported no error (input spans {:?})", r.pidx, layout.spans())),
                                    );
                                    return o;
                                }
                                if *len == 0 {
                                    o.class("zero-length-input-lexeme");
                                }
                            }
                        }
                    }
                    // (3) span
                    let mut lv = vec![];
                    leaves_of(&log, id, &mut lv);
                    if lv.is_empty() {
                        if r.span.0 != r.span.1 {
                            o.fail(
                                "wrong",
                                "C08/span/empty-derivation",
                                ctx(&format!("call {id} (production {}: {}) derived no lexeme but got span {:?}", r.pidx, b.grm.pp_prod(pidx), r.span)),
                            );
                            return o;
                        }
                    } else {
                        let exp = (lv[0].0, lv[lv.len() - 1].0 + lv[lv.len() - 1].1);
                        if r.span != exp {
                            o.fail(
                                "wrong",
                                "C08/span/wrong",
                                ctx(&format!("call {id} (production {}: {}) got span {:?}, its lexemes cover {:?}", r.pidx, b.grm.pp_prod(pidx), r.span, exp)),
                            );
                            return o;
                        }
                    }
                }
                // result/err contract needed for the tree checks
                let mut nontrivial = false;
                if let Some(root) = root {
                    if root >= log.len() {
                        o.fail("wrong", "C08/root-not-an-action-value", ctx("returned value was not produced by an action"));
                        return o;
                    }
                    // (1) exactly once, bottom-up, left-to-right
                    let mut po = vec![];
                    postorder(&log, root, &mut po);
                    let expect: Vec<usize> = (0..log.len()).collect();
                    if po != expect {
                        o.fail(
                            "wrong",
                            "C08/not-postorder",
                            ctx(&format!("post-order of the returned tree is {po:?}, the actions were called in order 0..{}", log.len())),
                        );
                        return o;
                    }
                    // classification
                    for r in log.iter() {
                        let n = r.args.len();
                        let empties: Vec<bool> = r
                            .args
                            .iter()
                            .map(|a| match a {
                                Arg::Value(v) => {
                                    let mut l = vec![];
                                    leaves_of(&log, *v, &mut l);
                                    l.is_empty()
                                }
                                _ => false,
                            })
                            .collect();
                        if n >= 2 && empties.iter().any(|e| !*e) {
                            if empties[0] {
                                o.class("empty-first-child");
                                nontrivial = true;
                            }
                            if empties[n - 1] {
                                o.class("empty-last-child");
                                nontrivial = true;
                            }
                            if n >= 3 && empties[1..n - 1].iter().any(|e| *e) {
                                o.class("empty-middle-child");
                            }
                        }
                    }
                    let mut lv = vec![];
                    leaves_of(&log, root, &mut lv);
                    if lv.iter().any(|l| l.2) {
                        o.class("inserted-lexeme");
                        nontrivial = true;
                    }
                    // (4) same tree as parse_map
                    let single = errs.iter().all(|e| e.repairs.len() <= 1);
                    if mode == 0 || single {
                        let pm = if mode == 0 {
                            parse_tree(&b, input, layout, RecoveryKind::None, None).map(|(t, e)| (t, e, false))
                        } else {
                            crate::harness::parse_tree_rec(&b, input, layout, None, CAP)
                        };
                        match pm {
                            Ok((t, e2, hit2)) => {
                                if !hit2 {
                                    let mine = to_itree(&b, &log, root);
                                    if t.as_ref() != Some(&mine) {
                                        o.fail("wrong", "C08/tree-differs-from-parse_map", ctx(&format!("actions tree {mine:?} vs parse_map {t:?}")));
                                        return o;
                                    }
                                    if e2 != errs {
                                        o.fail("wrong", "C08/errors-differ-from-parse_map", ctx(&format!("{errs:?} vs {e2:?}")));
                                        return o;
                                    }
                                }
                            }
                            Err(e) => {
                                o.fail("harness", "C08/harness", e);
                                return o;
                            }
                        }
                    }
                }
                if nontrivial {
                    o.nontrivial.push(hash64(&format!("{gkey}{input:?}{mode}")));
                    if o.sample.is_none() {
                        o.sample = Some(serde_json::json!({
                            "grammar": src,
                            "input": input.iter().map(|t| ag.tokens[*t].clone()).collect::<Vec<_>>(),
                            "recovery": mode == 1,
                            "action_calls": log.len(),
                        }));
                    }
                }
            }
        }
        if o.evals == 0 {
            o.evals = 1;
        }
        let _ = Sym::T(0);
        o
    }
}

//! C20 - results are independent of index storage width; too-small widths are refused cleanly.

use crate::digest::{canonical_state_perm, digest_grammar, digest_graph, digest_graph_perm, digest_table, digest_table_perm};
use crate::exec::{Outcome, PanicInfo, Prop, Tier, catch, hash64};
use crate::genr::choices::Choices;
use crate::genr::inputs::gen_input;
use crate::genr::yrender::YKind;
use crate::harness::{Layout, parse_digest, table_loop_witness_raw};
use crate::genr::grammar::AG;
use crate::props::c10::{gen_case, gen_case_with, yacc_kind};
use cfgrammar::yacc::YaccGrammar;
use lrlex::{DefaultLexerTypes, LRNonStreamingLexerDef, LexerDef};
use lrtable::{Minimiser, from_yacc};
use serde::{Deserialize, Serialize};
use serde_json::Value;

pub struct C20;

#[derive(Serialize, Deserialize, Debug, Clone)]
pub struct Case {
    /// "rules" | "tokens" | "prods" | "symbols" | "states" | "lexrules" | "small"
    pub family: String,
    pub n: usize,
    pub kind: YKind,
    pub text: String,
    /// inputs as token names
    pub inputs: Vec<Vec<String>>,
}

pub fn size_case(family: &str, n: usize) -> Case {
    let mut text = String::new();
    let mut inputs = vec![vec!["a".to_string()], vec![], vec!["a".to_string(), "a".to_string()]];
    match family {
        "rules" => {
            // n user rules, all but the first unreachable (few states)
            text.push_str("%%\n");
            for i in 0..n {
                text.push_str(&format!("R{i}: 'a';\n"));
            }
        }
        "tokens" => {
            text.push_str("%token");
            for i in 0..n.saturating_sub(1) {
                text.push_str(&format!(" t{i}"));
                if i % 50 == 49 {
                    text.push('\n');
                }
            }
            text.push_str("\n%%\nS: 'a';\n");
        }
        "prods" => {
            // n productions spread over unreachable rules of three productions each
            text.push_str("%%\nS: 'a';\n");
            let mut left = n.saturating_sub(1);
            let mut i = 0;
            while left > 0 {
                let k = left.min(3);
                let alts = ["'a'", "'b'", "'c'"];
                text.push_str(&format!("U{i}: {};\n", alts[..k].join(" | ")));
                left -= k;
                i += 1;
            }
        }
        "symbols" | "states" => {
            // one production with n symbols: n + 2 states
            let k = if family == "states" { n.saturating_sub(2) } else { n };
            text.push_str("%%\nS:");
            for _ in 0..k {
                text.push_str(" 'a'");
            }
            text.push_str(";\n");
            inputs = vec![vec!["a".to_string(); k], vec!["a".to_string(); k.saturating_sub(1)], vec![]];
        }
        "lexrules" => {
            text.push_str("%%\n");
            for i in 0..n {
                text.push_str(&format!("x{i}y 'T{i}'\n"));
            }
            inputs = vec![];
        }
        "lexrules-mixed" => {
            // two of three rules are skip rules: the rules are what is numbered, not the names
            text.push_str("%%\n");
            for i in 0..n {
                if i % 3 == 0 {
                    text.push_str(&format!("x{i}y 'T{i}'\n"));
                } else {
                    text.push_str(&format!("x{i}y ;\n"));
                }
            }
            inputs = vec![];
        }
        _ => {}
    }
    Case {
        family: family.to_string(),
        n,
        kind: YKind::Generic,
        text,
        inputs,
    }
}

/// Inflate one or two size dimensions of an ordinary generated grammar (any kind, with whatever
/// the kind adds on its own: Eco's implicit-token references, the start rule, the end token) to
/// the neighbourhood of 255.
pub fn inflate(ch: &mut Choices, ag: &mut AG, kind: YKind) {
    use crate::genr::grammar::{AgProd, AgRule, Sym};
    let implicit = kind == YKind::Eco && !ag.implicit_tokens.is_empty();
    let nops = ch.range(1, 2);
    for _ in 0..nops {
        match ch.pick(5) {
            0 | 1 => {
                // long productions: effective length (with Eco's implicit references: 2 per
                // token) aimed at 250..=260; optionally a second one that is longer in the source
                // but shorter once stored
                let e = ch.range(249, 261);
                let per_tok = if implicit { 2 } else { 1 };
                let t = ch.pick(e / per_tok + 1);
                let r = e - per_tok * t;
                let nt = ag.tokens.len().max(1);
                let nr = ag.rules.len();
                let tok = ch.pick(nt);
                let rule = ch.pick(nr);
                let mut syms: Vec<Sym> = vec![];
                let tokens_first = ch.chance(1, 2);
                if tokens_first {
                    syms.extend((0..t).map(|_| Sym::T(tok)));
                    syms.extend((0..r).map(|_| Sym::R(rule)));
                } else {
                    syms.extend((0..r).map(|_| Sym::R(rule)));
                    syms.extend((0..t).map(|_| Sym::T(tok)));
                }
                let host = ch.pick(nr);
                let proto = ag.rules[host].prods.first().cloned();
                let mk = |syms: Vec<Sym>| AgProd {
                    syms,
                    prec: None,
                    action: proto.as_ref().and_then(|p| p.action.clone()),
                };
                ag.rules[host].prods.push(mk(syms));
                if ch.chance(1, 2) && t + r < 250 {
                    let l2 = ch.range(t + r + 1, 254);
                    let host2 = ch.pick(nr);
                    let at = ch.pick(ag.rules[host2].prods.len() + 1);
                    ag.rules[host2].prods.insert(at, mk((0..l2).map(|_| Sym::R(rule)).collect()));
                }
            }
            2 => {
                // many rules (unreachable, one short production each)
                let target = ch.range(246, 259);
                let proto = ag.rules[0].clone();
                let mut i = 0;
                while ag.rules.len() < target {
                    let mut r: AgRule = proto.clone();
                    r.name = format!("Zz{i}");
                    r.prods.truncate(1);
                    if let Some(p) = r.prods.first_mut() {
                        p.syms.truncate(1);
                        p.prec = None;
                    }
                    ag.rules.push(r);
                    i += 1;
                }
            }
            3 => {
                // many productions
                let target = ch.range(246, 259);
                let host = ch.pick(ag.rules.len());
                let proto = ag.rules[host].prods.first().cloned();
                let nt = ag.tokens.len().max(1);
                while ag.nprods() < target {
                    let k = ag.nprods();
                    ag.rules[host].prods.push(AgProd {
                        syms: vec![Sym::T(k % nt), Sym::T((k / nt) % nt), Sym::T((k / nt / nt) % nt)],
                        prec: None,
                        action: proto.as_ref().and_then(|p| p.action.clone()),
                    });
                }
            }
            _ => {
                // many tokens (declared, unused)
                let target = ch.range(246, 259);
                let mut i = 0;
                while ag.tokens.len() < target {
                    ag.tokens.push(format!("zt{i}"));
                    i += 1;
                }
            }
        }
    }
    ag.stratum.push_str("+inflated");
}

/// Is this panic the documented refusal ("StorageT is not big enough ...", or the lexer's
/// conversion message that names StorageT)? A bare `assertion failed: ...` is not: the statement
/// asks for the documented panic.
fn clean_refusal(p: &PanicInfo) -> bool {
    p.msg.contains("StorageT") && !p.msg.starts_with("assertion failed")
}

struct WidthResult {
    /// None = cleanly refused
    summary: Option<String>,
    /// digest with the implementation's own state numbers (may differ across widths)
    raw: Option<String>,
    counts: Option<(usize, usize, usize, usize)>,
    parses: Vec<String>,
}

macro_rules! build_width {
    ($t:ty, $case:expr, $full:expr) => {{
        let case: &Case = $case;
        let full: bool = $full;
        catch(|| -> Result<WidthResult, String> {
            let grm = YaccGrammar::<$t>::new_with_storaget(yacc_kind(case.kind), &case.text).map_err(|e| format!("grammar rejected: {:?}", e))?;
            let (sg, st) = match from_yacc(&grm, Minimiser::Pager) {
                Ok(x) => x,
                Err(_) => {
                    return Ok(WidthResult {
                        summary: Some("accept-reduce".into()),
                        raw: None,
                        counts: None,
                        parses: vec![],
                    })
                }
            };
            let nstates = usize::from(sg.all_states_len());
            let counts = (usize::from(grm.rules_len()), usize::from(grm.tokens_len()), usize::from(grm.prods_len()), nstates);
            let iters = (grm.iter_rules().count(), grm.iter_tidxs().count(), grm.iter_pidxs().count(), sg.iter_stidxs().count());
            if (counts.0, counts.1, counts.2, counts.3) != iters {
                return Err(format!("reported sizes {:?} differ from the number of indices the iterators yield {:?}", counts, iters));
            }
            let mut summary = String::new();
            let mut raw = None;
            if full {
                // state numbers are compared up to the canonical breadth-first renumbering
                let perm = canonical_state_perm(&sg);
                summary.push_str(&digest_grammar(&grm));
                summary.push_str(&digest_table_perm(&grm, &st, nstates, false, Some(&perm)));
                summary.push_str(&digest_graph_perm(&grm, &sg, Some(&perm)));
                raw = Some(format!("{}{}", digest_table(&grm, &st, nstates, false), digest_graph(&grm, &sg)));
            } else {
                // large grammars: cheap summary (the full digest is quadratic in the token count)
                summary.push_str(&format!(
                    "eof={} start_prod={} start_rule={} last_rule={:?} last_token={:?} edges={}",
                    usize::from(grm.eof_token_idx()),
                    usize::from(grm.start_prod()),
                    usize::from(grm.start_rule_idx()),
                    grm.iter_rules().last().map(|r| grm.rule_name_str(r).to_string()),
                    grm.iter_tidxs().filter_map(|t| grm.token_name(t).map(|s| s.to_string())).last(),
                    sg.all_edges_len()
                ));
            }
            let mut parses = vec![];
            if table_loop_witness_raw(&grm, &st, nstates).is_none() {
                for inp in &case.inputs {
                    let toks: Option<Vec<usize>> = inp.iter().map(|n| grm.token_idx(n).map(usize::from)).collect();
                    if let Some(toks) = toks {
                        let lay = Layout::unit(toks.len());
                        parses.push(parse_digest(&grm, &st, &toks, &lay, false));
                        if toks.len() <= 12 {
                            parses.push(parse_digest(&grm, &st, &toks, &lay, true));
                        }
                    }
                }
            }
            Ok(WidthResult {
                summary: Some(summary),
                raw,
                counts: Some(counts),
                parses,
            })
        })
    }};
}

macro_rules! lex_width {
    ($t:ty, $text:expr) => {{
        catch(|| -> Result<usize, String> {
            let d = LRNonStreamingLexerDef::<DefaultLexerTypes<$t>>::from_str($text).map_err(|e| format!("{:?}", e.iter().map(|x| x.to_string()).collect::<Vec<_>>()))?;
            let n = d.iter_rules().count();
            // token ids must be the dense rule numbers, not wrapped around
            for (i, r) in d.iter_rules().enumerate() {
                let id: usize = num_traits::cast(r.tok_id().unwrap()).unwrap();
                if id != i {
                    return Err(format!("rule {i} has token id {id}"));
                }
            }
            Ok(n)
        })
    }};
}

impl Prop for C20 {
    fn id(&self) -> &'static str {
        "C20"
    }
    fn fuzz_target(&self) -> Option<&'static str> {
        Some("fz_choices")
    }
    fn fuzz_runs(&self) -> u64 {
        // three table constructions per case, boundary families of hundreds of symbols
        40_000
    }
    fn stream_len(&self, _tier: Tier) -> usize {
        1000
    }
    fn cases(&self, tier: Tier) -> u32 {
        tier.pick(6_000, 150_000)
    }
    fn watchdog_ms(&self) -> u64 {
        120_000
    }
    fn decode(&self, choices: &[u32], tier: Tier) -> Value {
        let mut ch = Choices::new(choices);
        if ch.chance(1, 8) {
            // random size near the u8 boundary
            let fam = *ch.choose(&["rules", "tokens", "prods", "symbols", "states", "lexrules", "lexrules-mixed"]);
            let n = 240 + ch.pick(30);
            return serde_json::to_value(size_case(fam, n)).unwrap();
        }
        let inflated = ch.chance(1, 5);
        let c = if inflated { gen_case_with(&mut ch, tier, Some(inflate)) } else { gen_case(&mut ch, tier) };
        let mut inputs = vec![];
        for _ in 0..4 {
            let inp = gen_input(&mut ch, &c.ag, 8, &[3, 3, 1]);
            inputs.push(inp.iter().map(|t| c.ag.tokens[*t].clone()).collect());
        }
        let text = c.body().to_string();
        serde_json::to_value(Case {
            family: if inflated { "inflated".into() } else { "small".into() },
            n: 0,
            kind: c.kind,
            text,
            inputs,
        })
        .unwrap()
    }
    fn extra_cases(&self, tier: Tier, _seed: u64) -> Vec<Value> {
        let mut v = vec![];
        for fam in ["rules", "tokens", "prods", "symbols", "states", "lexrules", "lexrules-mixed"] {
            for n in 250..=260 {
                v.push(serde_json::to_value(size_case(fam, n)).unwrap());
            }
        }
        // u16 boundary, grammar-level counts
        let fams: &[&str] = tier.pick(&["tokens"][..], &["tokens", "rules", "prods", "lexrules", "lexrules-mixed"][..]);
        for fam in fams {
            for n in tier.pick(65534..=65536, 65532..=65538) {
                v.push(serde_json::to_value(size_case(fam, n)).unwrap());
            }
        }
        v
    }
    fn rule(&self) -> String {
        "Size-boundary families (number of rules, tokens, productions, symbols in one production, LR states, lexer rules - all named, or two of three being skip rules -) at 250..260 (and random 240..269) for u8 and at 65534..65536 (thorough: 65532..65538, four families) for u16, plus ordinary small grammars as C10 and (1/5) 'inflated' ones: a C10 grammar of any kind (Eco with implicit tokens included) with one or two dimensions blown up to 246..261 - a production whose stored length (tokens count twice with implicit tokens) is 249..261, optionally with a second production longer in the source but shorter when stored, or many rules / productions / tokens; each built with u8, u16 and u32. Oracle: per width the construction completes or panics; a panic is a clean refusal iff it is the documented one (its message says that StorageT is not big enough; a bare assertion failure is not); every completing width reports sizes equal to the number of indices its iterators yield and equal to the u32 build's sizes, has the same digest of every grammar/graph/table query (first up to the canonical breadth-first renaming of states, for a precise signature, then with the implementation's own state numbers) and the same parse results; if a width completes every wider width completes. Evaluation = one (grammar, width). Non-trivial: some count lies within 3 of 255 or 65535, or the grammar is an inflated one; distinct by hash(family,n) / hash(text).".into()
    }
    fn assumptions(&self) -> Vec<String> {
        vec![
            "for grammars with more than 2000 tokens/rules a cheap summary replaces the full digest (token_idx is linear, the full digest quadratic)".into(),
        ]
    }
    /// An inflated grammar can need more than the worker's 3 GB for its u32 table (a production
    /// with a couple of hundred references to a recursive rule: the Pager's construction of one
    /// such grammar takes 13 GB in nimbleparse as well); that is the generator's doing, not a
    /// statement about widths.
    fn crash_is_resource_exhaustion(&self, case: &Value) -> bool {
        case["family"] == "inflated"
    }
    fn required_classes(&self, _tier: Tier) -> Vec<&'static str> {
        vec!["u8:refused", "u8:ok", "u16:refused", "u16:ok", "u32:ok", "family:small", "family:inflated", "family:tokens", "family:states", "family:lexrules", "family:lexrules-mixed"]
    }
    fn evaluate(&self, case: &Value) -> Outcome {
        let case: Case = serde_json::from_value(case.clone()).unwrap();
        let mut o = Outcome::new();
        o.class(&format!("family:{}", case.family));
        let near = |x: usize| (x as i64 - 255).abs() <= 3 || (x as i64 - 65535).abs() <= 3;
        if case.family.starts_with("lexrules") {
            let r8 = lex_width!(u8, &case.text);
            let r16 = lex_width!(u16, &case.text);
            let r32 = lex_width!(u32, &case.text);
            let mut completed = vec![];
            for (w, r) in [("u8", r8), ("u16", r16), ("u32", r32)] {
                o.evals += 1;
                match r {
                    Err(p) => {
                        if !clean_refusal(&p) {
                            o.fail("panic", format!("C20/lexer/{w}/{}", p.signature()), format!("{} lexer rules with {w}: {}", case.n, p.detail()));
                            return o;
                        }
                        o.class(&format!("{w}:refused"));
                        if !completed.is_empty() {
                            o.fail("wrong", "C20/wider-width-refused", format!("{} lexer rules: {w} refused but a narrower width completed", case.n));
                            return o;
                        }
                    }
                    Ok(Err(e)) => {
                        o.fail("wrong", format!("C20/lexer/{w}/wrong"), format!("{} lexer rules with {w}: {e}", case.n));
                        return o;
                    }
                    Ok(Ok(n)) => {
                        o.class(&format!("{w}:ok"));
                        if n != case.n {
                            o.fail("wrong", format!("C20/lexer/{w}/count"), format!("{} rules reported for {} in the source", n, case.n));
                            return o;
                        }
                        completed.push(w);
                    }
                }
            }
            if near(case.n) {
                o.nontrivial.push(hash64(&format!("{}{}", case.family, case.n)));
                o.sample = Some(serde_json::json!({"family": case.family, "n": case.n}));
            }
            return o;
        }
        let full = case.text.len() < 40_000;
        let r8 = build_width!(u8, &case, full);
        let r16 = build_width!(u16, &case, full);
        let r32 = build_width!(u32, &case, full);
        let mut reference: Option<WidthResult> = None;
        // walk from the widest to the narrowest: the u32 build is the reference
        let mut refused_wider = false;
        let mut results = vec![];
        for (w, r) in [("u32", r32), ("u16", r16), ("u8", r8)] {
            o.evals += 1;
            match r {
                Err(p) => {
                    if !clean_refusal(&p) {
                        o.fail(
                            "panic",
                            format!("C20/{w}/{}", p.signature()),
                            format!("family {} n {} with {w}: not a clean refusal: {}\n{}", case.family, case.n, p.detail(), case.text.chars().take(400).collect::<String>()),
                        );
                        return o;
                    }
                    o.class(&format!("{w}:refused"));
                    refused_wider = true;
                    results.push((w, None));
                }
                Ok(Err(e)) => {
                    let sig = if e.contains("grammar rejected") { "harness" } else { "wrong" };
                    o.fail(sig, format!("C20/{w}/inconsistent-sizes"), format!("family {} n {} with {w}: {e}", case.family, case.n));
                    return o;
                }
                Ok(Ok(wr)) => {
                    o.class(&format!("{w}:ok"));
                    if refused_wider {
                        o.fail("wrong", "C20/wider-width-refused", format!("family {} n {}: {w} completes although a wider width was refused", case.family, case.n));
                        return o;
                    }
                    results.push((w, Some(wr)));
                }
            }
        }
        for (w, r) in results {
            let Some(wr) = r else { continue };
            match &reference {
                None => reference = Some(wr),
                Some(rf) => {
                    if wr.counts != rf.counts {
                        o.fail(
                            "wrong",
                            format!("C20/{w}/sizes-differ"),
                            format!("family {} n {}: (rules,tokens,prods,states) {:?} with {w}, {:?} with u32", case.family, case.n, wr.counts, rf.counts),
                        );
                        return o;
                    }
                    if wr.summary != rf.summary {
                        let d = rf.summary.as_deref().unwrap_or("").lines().zip(wr.summary.as_deref().unwrap_or("").lines()).find(|(a, b)| a != b).map(|(a, b)| format!("u32: {a}\n{w}: {b}"));
                        o.fail("wrong", format!("C20/{w}/digest-differs"), format!("family {} n {}: first differing line:\n{:?}\n{}", case.family, case.n, d, case.text.chars().take(400).collect::<String>()));
                        return o;
                    }
                    if wr.raw != rf.raw && wr.raw.is_some() && rf.raw.is_some() {
                        // isomorphic automata with different state numbers: "the same numbering"
                        let d = rf.raw.as_deref().unwrap_or("").lines().zip(wr.raw.as_deref().unwrap_or("").lines()).find(|(a, b)| a != b).map(|(a, b)| format!("u32: {a}\n{w}: {b}"));
                        o.fail("wrong", format!("C20/{w}/state-numbering-differs"), format!("family {} n {}: same automaton up to renaming, but the state numbers differ; first differing line:\n{:?}\n{}", case.family, case.n, d, case.text.chars().take(400).collect::<String>()));
                        return o;
                    }
                    let parses_differ = wr.parses.len() != rf.parses.len()
                        || wr.parses.iter().zip(rf.parses.iter()).any(|(a, b)| a != b && a != "cap-hit" && b != "cap-hit");
                    if parses_differ {
                        o.fail("wrong", format!("C20/{w}/parse-differs"), format!("family {} n {}: {:?} vs u32 {:?}", case.family, case.n, wr.parses, rf.parses));
                        return o;
                    }
                }
            }
        }
        // true counts for the size families (from the construction of the text)
        if let Some(rf) = &reference {
            if let Some((rules, tokens, prods, states)) = rf.counts {
                let exp = match case.family.as_str() {
                    "rules" => Some(("rules", rules, case.n + 1)),
                    "tokens" => Some(("tokens", tokens, case.n + 1)),
                    "prods" => Some(("prods", prods, case.n + 1)),
                    "states" => Some(("states", states, case.n)),
                    _ => None,
                };
                if let Some((what, got, want)) = exp {
                    if got != want {
                        o.fail("wrong", "C20/true-count", format!("family {} n {}: {what} = {got}, the source has {want}", case.family, case.n));
                        return o;
                    }
                }
                if near(rules) || near(tokens) || near(prods) || near(states) || case.family == "inflated" {
                    o.nontrivial.push(hash64(&format!("{}{}{}", case.family, case.n, if case.n == 0 { &case.text } else { "" })));
                    o.sample = Some(serde_json::json!({"family": case.family, "n": case.n, "counts(rules,tokens,prods,states)": [rules, tokens, prods, states]}));
                }
            }
        }
        o
    }
}

//! C01 - a generated parser recognises exactly the grammar's language.

use crate::exec::{Outcome, Prop, Tier, hash64};
use crate::genr::choices::Choices;
use crate::genr::grammar::{AG, GenOpts, Sym, gen_grammar};
use crate::genr::inputs::{all_strings, gen_input};
use crate::harness::{Built, BuildErr, ITree, Layout, build, parse_tree};
use crate::refimpl::earley::Earley;
use cfgrammar::{Symbol, TIdx};
use lrpar::RecoveryKind;
use lrtable::Action;
use serde::{Deserialize, Serialize};
use serde_json::Value;
use vob::Vob;

pub struct C01;

#[derive(Serialize, Deserialize, Debug, Clone)]
pub struct Case {
    pub ag: AG,
    pub inputs: Vec<Vec<usize>>,
    pub layouts: Vec<Layout>,
}

pub fn opts(tier: Tier) -> GenOpts {
    GenOpts {
        max_rules: tier.pick(5, 8),
        max_prods: 4,
        max_syms: 4,
        max_tokens: 5,
        allow_cycles: false,
        allow_unproductive: true,
        strata: [5, 2, 2, 1],
        precedence: true,
        avoid_insert: false,
        pad_tokens: true,
    }
}

pub fn decode_case(choices: &[u32], tier: Tier, o: &GenOpts, ninputs: usize, weights: &[usize; 3]) -> Case {
    let mut ch = Choices::new(choices);
    let ag = gen_grammar(&mut ch, o);
    let max_len = tier.pick(10, 14);
    let mut inputs = vec![];
    let mut layouts = vec![];
    for _ in 0..ninputs {
        let inp = gen_input(&mut ch, &ag, max_len, weights);
        layouts.push(Layout::generate(&mut ch, inp.len()));
        inputs.push(inp);
    }
    Case { ag, inputs, layouts }
}

/// Light per-grammar certificate over the public table API (clause iii of the design).
pub fn table_certificate(b: &Built<u32>) -> Result<(), String> {
    let grm = &b.grm;
    for stidx in b.sg.iter_stidxs() {
        let closed = b.sg.closed_state(stidx);
        for tidx in grm.iter_tidxs() {
            match b.st.action(stidx, tidx) {
                Action::Shift(s) => {
                    if b.sg.edge(stidx, Symbol::Token(tidx)) != Some(s) {
                        return Err(format!(
                            "state {} token {}: Shift({}) but the graph edge differs",
                            usize::from(stidx),
                            usize::from(tidx),
                            usize::from(s)
                        ));
                    }
                    let has_item = closed.items.keys().any(|(pidx, dot)| {
                        let prod = grm.prod(*pidx);
                        usize::from(*dot) < prod.len()
                            && prod[usize::from(*dot)] == Symbol::Token(tidx)
                    });
                    if !has_item {
                        return Err(format!(
                            "state {} token {}: shift without an item with the dot before that token",
                            usize::from(stidx),
                            usize::from(tidx)
                        ));
                    }
                }
                Action::Reduce(p) => {
                    let ok = closed.items.iter().any(|((pidx, dot), ctx)| {
                        *pidx == p
                            && usize::from(*dot) == grm.prod(p).len()
                            && vob_get(ctx, usize::from(tidx))
                    });
                    if !ok {
                        return Err(format!(
                            "state {} token {}: Reduce({}) without a completed item carrying that lookahead",
                            usize::from(stidx),
                            usize::from(tidx),
                            usize::from(p)
                        ));
                    }
                }
                Action::Accept => {
                    if tidx != grm.eof_token_idx() {
                        return Err("Accept on a token other than end of input".into());
                    }
                    let sp = grm.start_prod();
                    let ok = closed.items.iter().any(|((pidx, dot), ctx)| {
                        *pidx == sp
                            && usize::from(*dot) == grm.prod(sp).len()
                            && vob_get(ctx, usize::from(tidx))
                    });
                    if !ok {
                        return Err("Accept without the completed start item".into());
                    }
                }
                Action::Error => {}
            }
        }
    }
    Ok(())
}

pub fn vob_get(v: &Vob, i: usize) -> bool {
    v.get(i).unwrap_or(false)
}

/// Validity of an accepted tree: root is the user's start rule, children spell productions of
/// the AG, leaves are the input lexemes themselves.
pub fn check_tree(
    ag: &AG,
    tree: &ITree,
    input: &[usize],
    layout: &Layout,
) -> Result<crate::refimpl::lr1::Tree, String> {
    let spans = layout.spans();
    let starts: Vec<usize> = spans.iter().map(|(s, _)| *s).collect();
    match tree {
        ITree::Node { rule, .. } => {
            if *rule != Some(ag.start) {
                return Err(format!(
                    "root node is rule {:?}, expected the start rule {}",
                    rule, ag.start
                ));
            }
        }
        _ => return Err("root is a leaf".into()),
    }
    let mut leaves = vec![];
    tree.leaves(&mut leaves);
    if leaves.len() != input.len() {
        return Err(format!(
            "tree has {} leaves, input has {} lexemes",
            leaves.len(),
            input.len()
        ));
    }
    for (i, l) in leaves.iter().enumerate() {
        if let ITree::Leaf {
            tok,
            start,
            len,
            faulty,
        } = l
        {
            if *tok != input[i] || *start != spans[i].0 || *len != spans[i].1 || *faulty {
                return Err(format!(
                    "leaf {i} is (tok {tok}, start {start}, len {len}, faulty {faulty}), input lexeme is (tok {}, start {}, len {})",
                    input[i], spans[i].0, spans[i].1
                ));
            }
        }
    }
    tree.to_ref(ag, &starts)
}

impl Prop for C01 {
    fn id(&self) -> &'static str {
        "C01"
    }
    fn fuzz_target(&self) -> Option<&'static str> {
        Some("fz_choices")
    }
    fn fuzz_runs(&self) -> u64 {
        150000
    }
    fn stream_len(&self, tier: Tier) -> usize {
        tier.pick(700, 900)
    }
    fn cases(&self, tier: Tier) -> u32 {
        tier.pick(300_000, 6_000_000)
    }
    fn decode(&self, choices: &[u32], tier: Tier) -> Value {
        let c = decode_case(choices, tier, &opts(tier), tier.pick(24, 40), &[3, 4, 2]);
        serde_json::to_value(c).unwrap()
    }
    fn extra_cases(&self, tier: Tier, seed: u64) -> Vec<Value> {
        // bounded-exhaustive strings for a number of generated grammars
        let n = tier.pick(150, 4000);
        let mut out = vec![];
        let mut x = seed ^ 0x9E3779B97F4A7C15;
        let mut o = opts(tier);
        o.max_tokens = 3;
        o.strata = [6, 1, 0, 1];
        for _ in 0..n {
            let mut stream = vec![];
            for _ in 0..200 {
                // splitmix64 keeps the stream a pure function of the seed
                x = x.wrapping_add(0x9E3779B97F4A7C15);
                let mut z = x;
                z = (z ^ (z >> 30)).wrapping_mul(0xBF58476D1CE4E5B9);
                z = (z ^ (z >> 27)).wrapping_mul(0x94D049BB133111EB);
                z ^= z >> 31;
                stream.push(z as u32);
            }
            let mut ch = Choices::new(&stream);
            let ag = gen_grammar(&mut ch, &o);
            let nt = ag.tokens.len();
            if nt > 3 {
                continue;
            }
            let k = match nt {
                1 => 8,
                2 => 7,
                _ => tier.pick(5, 6),
            };
            let inputs = all_strings(nt, k);
            let layouts = inputs.iter().map(|i| Layout::unit(i.len())).collect();
            out.push(serde_json::to_value(Case { ag, inputs, layouts }).unwrap());
        }
        out
    }
    fn rule(&self) -> String {
        "AG from strata rand/expr/lr1/repo (cycle-free, unproductive rules allowed), 24-40 inputs per grammar (sentences from random derivations, 1-4 edit near misses, random strings) plus bounded-exhaustive strings (alphabet<=3, length<=5..8) on extra grammars. Oracle: tree validity against the AG for every accepted input; if conflicts()==None and no precedence declarations: accepted <=> Earley accepts; table certificate over action/closed_state/edge. Evaluation = one (grammar,input). Non-trivial: >=2 user rules, input >=2 lexemes, and (accepted with tree depth>=3, or rejected with first non-viable index>=1); distinct by hash(grammar,input).".into()
    }
    fn assumptions(&self) -> Vec<String> {
        vec![
            "grammars with precedence declarations are excluded from the language-equality clause (silently resolved conflicts change the language without being reported)".into(),
            "Earley recogniser over the productive part of the grammar is the language oracle".into(),
        ]
    }
    fn required_classes(&self, _tier: Tier) -> Vec<&'static str> {
        vec![
            "accepted",
            "rejected",
            "conflict-free",
            "with-conflicts",
            "stratum:rand",
            "stratum:expr",
            "stratum:lr1",
            "stratum:repo",
            "has-empty-production",
        ]
    }

    fn evaluate(&self, case: &Value) -> Outcome {
        let case: Case = serde_json::from_value(case.clone()).unwrap();
        let mut o = Outcome::new();
        let ag = &case.ag;
        let b = match build(ag) {
            Ok(b) => b,
            Err(BuildErr::Grammar(e)) => {
                o.evals = 1;
                o.fail(
                    "harness",
                    "C01/grammar-rejected",
                    format!("rendered grammar rejected: {e}\n{}", crate::genr::grammar::render_simple(ag)),
                );
                return o;
            }
            Err(BuildErr::Table(_)) => {
                o.evals = 1;
                o.discard("accept-reduce-conflict");
                return o;
            }
        };
        o.class(&format!("stratum:{}", ag.stratum.split(['+', '-']).next().unwrap_or("")));
        if ag.stratum.contains("+large") {
            o.class("size:large");
        }
        if ag.rules.iter().any(|r| r.prods.iter().any(|p| p.syms.is_empty())) {
            o.class("has-empty-production");
        }
        let conflict_free = b.st.conflicts().is_none();
        o.class(if conflict_free { "conflict-free" } else { "with-conflicts" });
        if (!conflict_free || ag.has_precedence()) && crate::harness::table_loop_witness(&b).is_some() {
            // hidden left recursion + conflict resolution => the LR loop never consumes input
            // (see DESIGN.md, finding C07/nonconsuming-reduce-loop); outside the parse domain
            o.evals = 1;
            o.class("excluded:nonconsuming-reduce-loop");
            o.discard("nonconsuming-reduce-loop");
            return o;
        }
        if let Err(e) = table_certificate(&b) {
            o.evals = 1;
            o.fail("wrong", "C01/table-certificate", e);
            return o;
        }
        let lang_clause = conflict_free && !ag.has_precedence()
            && !ag.rules.iter().any(|r| r.prods.iter().any(|p| p.prec.is_some()));
        let earley = Earley::new(ag);
        let gkey = ag.canonical_string();
        for (input, layout) in case.inputs.iter().zip(case.layouts.iter()) {
            o.evals += 1;
            let (tree, errs) = match parse_tree(&b, input, layout, RecoveryKind::None, None) {
                Ok(x) => x,
                Err(e) => {
                    o.fail("harness", "C01/harness", e);
                    return o;
                }
            };
            let accepted = tree.is_some() && errs.is_empty();
            let (e_acc, e_nv) = earley.run(input);
            if tree.is_some() != errs.is_empty() {
                o.fail(
                    "wrong",
                    "C01/value-and-errors-disagree",
                    format!(
                        "recovery off: value is_some={} but {} errors; input {:?}",
                        tree.is_some(),
                        errs.len(),
                        input
                    ),
                );
                return o;
            }
            if accepted {
                o.class("accepted");
                match check_tree(ag, tree.as_ref().unwrap(), input, layout) {
                    Ok(t) => {
                        if ag.rules.len() >= 2 && input.len() >= 2 && t.depth() >= 3 {
                            o.nontrivial.push(hash64(&format!("{gkey}{input:?}")));
                        }
                    }
                    Err(e) => {
                        o.fail("wrong", "C01/invalid-tree", format!("input {input:?}: {e}"));
                        return o;
                    }
                }
                // an accepted input must in any case be a sentence (soundness, conflicts or not)
                if !e_acc {
                    o.fail(
                        "wrong",
                        "C01/accepted-non-sentence",
                        format!("input {input:?} accepted but Earley rejects it"),
                    );
                    return o;
                }
            } else {
                o.class("rejected");
                if ag.rules.len() >= 2 && input.len() >= 2 && e_nv.map(|k| k >= 1).unwrap_or(false) {
                    o.nontrivial.push(hash64(&format!("{gkey}{input:?}")));
                }
                if lang_clause && e_acc {
                    o.fail(
                        "wrong",
                        "C01/sentence-rejected",
                        format!("conflict-free grammar, sentence {input:?} rejected"),
                    );
                    return o;
                }
            }
            if o.sample.is_none() && !o.nontrivial.is_empty() {
                o.sample = Some(serde_json::json!({
                    "grammar": crate::genr::grammar::render_simple(ag),
                    "input": input.iter().map(|t| ag.tokens[*t].clone()).collect::<Vec<_>>(),
                    "accepted": accepted,
                }));
            }
        }
        let _ = (Sym::T(0), TIdx(0u32));
        o
    }
}

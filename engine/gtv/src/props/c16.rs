//! C16 - state graph and table queries agree with each other.

use crate::exec::{Outcome, Prop, Tier, hash64};
use crate::genr::choices::Choices;
use crate::genr::grammar::{AG, GenOpts, gen_grammar, render_simple};
use crate::harness::{BuildErr, Built, build};
use crate::props::c01::vob_get;
use crate::refimpl::lr1::{self, State1};
use cfgrammar::{PIdx, RIdx, Symbol, TIdx};
use lrtable::{Action, StIdx};
use serde::{Deserialize, Serialize};
use serde_json::Value;
use std::collections::{BTreeMap, BTreeSet};

pub struct C16;

#[derive(Serialize, Deserialize, Debug, Clone)]
pub struct GCase {
    pub ag: AG,
    /// text mode: a rendered grammar of any kind (Eco with implicit tokens included), judged
    /// through the implementation's own grammar object: every query clause except the closure
    #[serde(default)]
    pub text: Option<(crate::genr::yrender::YKind, String)>,
}

pub fn table_opts(tier: Tier) -> GenOpts {
    GenOpts {
        max_rules: tier.pick(5, 7),
        max_prods: 4,
        max_syms: 4,
        max_tokens: 5,
        allow_cycles: true,
        allow_unproductive: true,
        strata: [3, 5, 1, 1],
        precedence: true,
        avoid_insert: false,
        pad_tokens: true,
    }
}

/// Convert an implementation item set into reference items over the AG's flat numbering.
pub fn convert_itemset(
    b: &Built<u32>,
    flat: &lr1::Flat,
    stidx: StIdx<u32>,
    closed: bool,
) -> Result<State1, String> {
    let is = if closed {
        b.sg.closed_state(stidx)
    } else {
        b.sg.core_state(stidx)
    };
    let mut out = State1::new();
    let ntok = usize::from(b.grm.tokens_len());
    for ((pidx, dot), ctx) in is.items.iter() {
        let fp = if *pidx == b.grm.start_prod() {
            flat.aug
        } else {
            let (r, k) = b
                .ag_prod(*pidx)
                .ok_or_else(|| format!("item of unknown production {}", usize::from(*pidx)))?;
            flat.rule_prods[r][k]
        };
        for t in 0..ntok {
            if vob_get(ctx, t) {
                let la = if TIdx(t as u32) == b.grm.eof_token_idx() {
                    flat.eof
                } else {
                    b.ag_token(TIdx(t as u32))
                        .ok_or_else(|| format!("lookahead of unknown token {t}"))?
                };
                out.insert((fp, usize::from(*dot), la));
            }
        }
    }
    Ok(out)
}

/// As `convert_itemset`, keeping the (production, dot) -> lookahead set shape (sets may be empty).
pub fn convert_itemset_sets(b: &Built<u32>, flat: &lr1::Flat, stidx: StIdx<u32>, closed: bool) -> Result<BTreeMap<(usize, usize), BTreeSet<usize>>, String> {
    let is = if closed { b.sg.closed_state(stidx) } else { b.sg.core_state(stidx) };
    let mut out = BTreeMap::new();
    let ntok = usize::from(b.grm.tokens_len());
    for ((pidx, dot), ctx) in is.items.iter() {
        let fp = if *pidx == b.grm.start_prod() {
            flat.aug
        } else {
            let (r, k) = b.ag_prod(*pidx).ok_or_else(|| format!("item of unknown production {}", usize::from(*pidx)))?;
            flat.rule_prods[r][k]
        };
        let mut las = BTreeSet::new();
        for t in 0..ntok {
            if vob_get(ctx, t) {
                las.insert(if TIdx(t as u32) == b.grm.eof_token_idx() {
                    flat.eof
                } else {
                    b.ag_token(TIdx(t as u32)).ok_or_else(|| format!("lookahead of unknown token {t}"))?
                });
            }
        }
        out.insert((fp, usize::from(*dot)), las);
    }
    Ok(out)
}

fn pidx_key(b: &Built<u32>, p: PIdx<u32>) -> (usize, usize) {
    (usize::from(b.grm.prod_to_rule(p)), b.grm.prod(p).len())
}

/// Text mode: the query clauses of C16 on a grammar of any kind, through the implementation's own
/// grammar object (no abstract grammar is needed for them).
fn evaluate_text(kind: crate::genr::yrender::YKind, text: &str) -> Outcome {
    use cfgrammar::yacc::YaccGrammar;
    let mut o = Outcome::new();
    o.evals = 1;
    o.class(&format!("text-mode:{kind:?}"));
    let grm = match YaccGrammar::<u32>::new_with_storaget(crate::props::c10::yacc_kind(kind), text) {
        Ok(g) => g,
        Err(e) => {
            o.fail("harness", "C16/grammar-rejected", format!("{e:?}\n{text}"));
            return o;
        }
    };
    let (sg, st) = match lrtable::from_yacc(&grm, lrtable::Minimiser::Pager) {
        Ok(x) => x,
        Err(_) => {
            o.discard("accept-reduce-conflict");
            return o;
        }
    };
    if grm.implicit_rule().is_some() {
        o.class("text-mode:implicit-tokens");
    }
    if sg.start_state() != st.start_state() {
        o.fail("wrong", "C16/start-state", "graph and table disagree on the start state");
        return o;
    }
    let nstates = usize::from(sg.all_states_len());
    let mut seen = vec![false; nstates];
    let mut todo = vec![sg.start_state()];
    seen[usize::from(sg.start_state())] = true;
    while let Some(s) = todo.pop() {
        for (_, t) in sg.edges(s).iter() {
            if usize::from(*t) >= nstates {
                o.fail("wrong", "C16/edge-target-out-of-range", format!("edge to state {}, the graph has {nstates} states\n{text}", usize::from(*t)));
                return o;
            }
            if !seen[usize::from(*t)] {
                seen[usize::from(*t)] = true;
                todo.push(*t);
            }
        }
    }
    if let Some(u) = seen.iter().position(|x| !*x) {
        o.fail("wrong", "C16/unreachable-state", format!("state {u} unreachable\n{text}"));
        return o;
    }
    o.evals = 0;
    for s in sg.iter_stidxs() {
        o.evals += 1;
        let si = usize::from(s);
        let mut non_error = BTreeSet::new();
        let mut shifts = BTreeSet::new();
        let mut reduces: BTreeSet<usize> = BTreeSet::new();
        let mut has_accept = false;
        for t in grm.iter_tidxs() {
            match st.action(s, t) {
                Action::Error => {}
                Action::Shift(x) => {
                    non_error.insert(usize::from(t));
                    shifts.insert(usize::from(t));
                    if sg.edge(s, Symbol::Token(t)) != Some(x) {
                        o.fail("wrong", "C16/shift-target-vs-edge", format!("state {si} token {}: Shift({}) but edge is {:?}\n{text}", usize::from(t), usize::from(x), sg.edge(s, Symbol::Token(t)).map(usize::from)));
                        return o;
                    }
                }
                Action::Reduce(p) => {
                    non_error.insert(usize::from(t));
                    reduces.insert(usize::from(p));
                }
                Action::Accept => {
                    non_error.insert(usize::from(t));
                    has_accept = true;
                }
            }
        }
        let sa: BTreeSet<usize> = st.state_actions(s).map(usize::from).collect();
        if sa != non_error {
            o.fail("wrong", "C16/state_actions", format!("state {si}: state_actions = {sa:?}, tokens with a non-error action = {non_error:?}\n{text}"));
            return o;
        }
        let ss: BTreeSet<usize> = st.state_shifts(s).map(usize::from).collect();
        if ss != shifts {
            o.fail("wrong", "C16/state_shifts", format!("state {si}: state_shifts = {ss:?}, tokens whose action is a shift = {shifts:?}\n{text}"));
            return o;
        }
        for r in grm.iter_rules() {
            let (g, e) = (st.goto(s, r), sg.edge(s, Symbol::Rule(r)));
            if g != e {
                o.fail("wrong", "C16/goto-vs-edge", format!("state {si} rule {}: goto {:?}, edge {:?}\n{text}", usize::from(r), g.map(usize::from), e.map(usize::from)));
                return o;
            }
        }
        let key = |p: PIdx<u32>| (usize::from(grm.prod_to_rule(p)), grm.prod(p).len());
        let cr: Vec<PIdx<u32>> = st.core_reduces(s).collect();
        let keys: BTreeSet<(usize, usize)> = reduces.iter().map(|p| key(PIdx(*p as u32))).collect();
        let mut seen_keys: BTreeMap<(usize, usize), usize> = BTreeMap::new();
        for p in &cr {
            if !reduces.contains(&usize::from(*p)) {
                o.fail("wrong", "C16/core_reduces/not-a-reduce-action", format!("state {si}: core reduce {} is not a reduce action of the state\n{text}", usize::from(*p)));
                return o;
            }
            *seen_keys.entry(key(*p)).or_default() += 1;
        }
        if seen_keys.keys().cloned().collect::<BTreeSet<_>>() != keys || seen_keys.values().any(|n| *n != 1) {
            o.fail("wrong", "C16/core_reduces/keys", format!("state {si}: core_reduces {:?} vs (rule,len) pairs of the reductions {keys:?}\n{text}", cr.iter().map(|p| usize::from(*p)).collect::<Vec<_>>()));
            return o;
        }
        if !non_error.is_empty() {
            let expect = !has_accept && shifts.is_empty() && keys.len() == 1;
            if st.reduce_only_state(s) != expect {
                o.fail("wrong", "C16/reduce_only_state", format!("state {si}: reduce_only_state = {}, expected {expect}\n{text}", !expect));
                return o;
            }
        }
    }
    o
}

impl Prop for C16 {
    fn id(&self) -> &'static str {
        "C16"
    }
    fn fuzz_target(&self) -> Option<&'static str> {
        Some("fz_choices")
    }
    fn stream_len(&self, _tier: Tier) -> usize {
        300
    }
    fn cases(&self, tier: Tier) -> u32 {
        tier.pick(500_000, 8_000_000)
    }
    fn decode(&self, choices: &[u32], tier: Tier) -> Value {
        let mut ch = Choices::new(choices);
        if ch.chance(1, 8) {
            let c = crate::props::c10::gen_case(&mut ch, tier);
            let text = c.body().to_string();
            return serde_json::to_value(GCase { ag: c.ag, text: Some((c.kind, text)) }).unwrap();
        }
        let ag = gen_grammar(&mut ch, &table_opts(tier));
        serde_json::to_value(GCase { ag, text: None }).unwrap()
    }
    fn extra_cases(&self, _tier: Tier, _seed: u64) -> Vec<Value> {
        // degenerate grammars no generator draws: no token at all (only end of input), tokens
        // declared but never used; judged in text mode
        use crate::genr::yrender::YKind;
        [
            "%%\nS: ;\n",
            "%start S\n%%\nS: A ;\nA: ;\n",
            "%start S\n%%\nS: A B ;\nA: ;\nB: A | ;\n",
            "%token X Y\n%%\nS: ;\n",
            "%token X\n%left X\n%%\nS: T ;\nT: ;\n",
        ]
        .iter()
        .map(|t| serde_json::to_value(GCase { ag: AG::default(), text: Some((YKind::Generic, t.to_string())) }).unwrap())
        .collect()
    }
    fn rule(&self) -> String {
        "AG from strata expr (50%, random %left/%right/%nonassoc lines and %prec), rand (with random precedence lines, cycles and unproductive rules allowed), lr1, repo. 1/8 of the cases are C10 renderings of any kind (Eco with %implicit_tokens included) judged through the implementation's own grammar object (all clauses but the closure); five fixed degenerate texts (no token at all, tokens declared but unused). Oracle: for every state x token x rule the public queries are cross-checked (state_actions/state_shifts vs action, Shift target vs edge, goto vs edge, core_reduces, reduce_only_state, reachability, start_state, closed_state == reference LR(1) closure of core_state). Evaluation = one state of one grammar. Non-trivial: the grammar's table has a cell changed by resolution (reduce replaced by shift through precedence, or removed by %nonassoc) or a state with two reductions of the same (rule,length); distinct by hash(grammar).".into()
    }
    fn assumptions(&self) -> Vec<String> {
        vec!["reference LR(1) closure (FIRST/nullable from refimpl::analyses) trusted".into()]
    }
    fn required_classes(&self, _tier: Tier) -> Vec<&'static str> {
        vec![
            "nonassoc-removed-cell",
            "precedence-resolved-to-shift",
            "with-conflicts",
            "conflict-free",
            "reduce-only-state",
            "text-mode:implicit-tokens",
        ]
    }
    fn evaluate(&self, case: &Value) -> Outcome {
        let case: GCase = serde_json::from_value(case.clone()).unwrap();
        let mut o = Outcome::new();
        let ag = &case.ag;
        o.evals = 1;
        if let Some((kind, text)) = &case.text {
            return evaluate_text(*kind, text);
        }
        let b = match build(ag) {
            Ok(b) => b,
            Err(BuildErr::Grammar(e)) => {
                o.fail("harness", "C16/grammar-rejected", format!("{e}\n{}", render_simple(ag)));
                return o;
            }
            Err(BuildErr::Table(_)) => {
                o.discard("accept-reduce-conflict");
                return o;
            }
        };
        o.class(if b.st.conflicts().is_some() {
            "with-conflicts"
        } else {
            "conflict-free"
        });
        let flat = lr1::flatten(ag);
        let fi = lr1::first_info(ag);
        let grm = &b.grm;
        let src = || render_simple(ag);
        if b.sg.start_state() != b.st.start_state() {
            o.fail("wrong", "C16/start-state", "graph and table disagree on the start state");
            return o;
        }
        let nstates = usize::from(b.sg.all_states_len());
        // reachability
        let mut seen = vec![false; nstates];
        let mut todo = vec![b.sg.start_state()];
        seen[usize::from(b.sg.start_state())] = true;
        while let Some(s) = todo.pop() {
            for (_, t) in b.sg.edges(s).iter() {
                if usize::from(*t) >= nstates {
                    o.fail("wrong", "C16/edge-target-out-of-range", format!("state {} has an edge to state {}, the graph has {nstates} states\n{}", usize::from(s), usize::from(*t), src()));
                    return o;
                }
                if !seen[usize::from(*t)] {
                    seen[usize::from(*t)] = true;
                    todo.push(*t);
                }
            }
        }
        if let Some(u) = seen.iter().position(|x| !*x) {
            o.fail("wrong", "C16/unreachable-state", format!("state {u} unreachable\n{}", src()));
            return o;
        }
        let mut nontrivial = false;
        o.evals = 0;
        for s in b.sg.iter_stidxs() {
            o.evals += 1;
            let si = usize::from(s);
            let mut non_error = BTreeSet::new();
            let mut shifts = BTreeSet::new();
            let mut reduces: BTreeSet<usize> = BTreeSet::new();
            let mut has_accept = false;
            for t in grm.iter_tidxs() {
                match b.st.action(s, t) {
                    Action::Error => {}
                    Action::Shift(x) => {
                        non_error.insert(usize::from(t));
                        shifts.insert(usize::from(t));
                        if b.sg.edge(s, Symbol::Token(t)) != Some(x) {
                            o.fail(
                                "wrong",
                                "C16/shift-target-vs-edge",
                                format!("state {si} token {}: Shift({}) but edge is {:?}\n{}", usize::from(t), usize::from(x), b.sg.edge(s, Symbol::Token(t)).map(usize::from), src()),
                            );
                            return o;
                        }
                    }
                    Action::Reduce(p) => {
                        non_error.insert(usize::from(t));
                        reduces.insert(usize::from(p));
                    }
                    Action::Accept => {
                        non_error.insert(usize::from(t));
                        has_accept = true;
                    }
                }
            }
            // classification: cells changed by resolution
            let closed = b.sg.closed_state(s);
            for t in grm.iter_tidxs() {
                let has_edge = b.sg.edge(s, Symbol::Token(t)).is_some();
                let has_red = closed.items.iter().any(|((p, d), ctx)| {
                    usize::from(*d) == grm.prod(*p).len() && vob_get(ctx, usize::from(t))
                });
                if has_edge && has_red {
                    match b.st.action(s, t) {
                        Action::Error => {
                            o.class("nonassoc-removed-cell");
                            nontrivial = true;
                        }
                        Action::Shift(_) => {
                            let reported = b
                                .st
                                .conflicts()
                                .map(|c| c.sr_conflicts().any(|(ct, _, cs)| *ct == t && *cs == s))
                                .unwrap_or(false);
                            if !reported {
                                o.class("precedence-resolved-to-shift");
                                nontrivial = true;
                            }
                        }
                        _ => {}
                    }
                }
            }
            let sa: BTreeSet<usize> = b.st.state_actions(s).map(usize::from).collect();
            if sa != non_error {
                o.fail(
                    "wrong",
                    "C16/state_actions",
                    format!("state {si}: state_actions = {sa:?}, tokens with a non-error action = {non_error:?}\n{}", src()),
                );
                return o;
            }
            let ss: BTreeSet<usize> = b.st.state_shifts(s).map(usize::from).collect();
            if ss != shifts {
                o.fail(
                    "wrong",
                    "C16/state_shifts",
                    format!("state {si}: state_shifts = {ss:?}, tokens whose action is a shift = {shifts:?}\n{}", src()),
                );
                return o;
            }
            for r in grm.iter_rules() {
                let g = b.st.goto(s, r);
                let e = b.sg.edge(s, Symbol::Rule(r));
                if g != e {
                    o.fail(
                        "wrong",
                        "C16/goto-vs-edge",
                        format!("state {si} rule {}: goto {:?}, edge {:?}\n{}", usize::from(r), g.map(usize::from), e.map(usize::from), src()),
                    );
                    return o;
                }
            }
            // core reduces
            let cr: Vec<PIdx<u32>> = b.st.core_reduces(s).collect();
            let keys: BTreeSet<(usize, usize)> =
                reduces.iter().map(|p| pidx_key(&b, PIdx(*p as u32))).collect();
            let mut seen_keys: BTreeMap<(usize, usize), usize> = BTreeMap::new();
            for p in &cr {
                if !reduces.contains(&usize::from(*p)) {
                    o.fail(
                        "wrong",
                        "C16/core_reduces/not-a-reduce-action",
                        format!("state {si}: core reduce {} is not a reduce action of the state\n{}", usize::from(*p), src()),
                    );
                    return o;
                }
                *seen_keys.entry(pidx_key(&b, *p)).or_default() += 1;
            }
            if seen_keys.keys().cloned().collect::<BTreeSet<_>>() != keys
                || seen_keys.values().any(|n| *n != 1)
            {
                o.fail(
                    "wrong",
                    "C16/core_reduces/keys",
                    format!("state {si}: core_reduces {:?} vs (rule,len) pairs of the reductions {keys:?}\n{}", cr.iter().map(|p| usize::from(*p)).collect::<Vec<_>>(), src()),
                );
                return o;
            }
            if reduces.len() > keys.len() {
                o.class("same-key-reductions");
                nontrivial = true;
            }
            if !non_error.is_empty() {
                let expect = !has_accept && shifts.is_empty() && keys.len() == 1;
                if b.st.reduce_only_state(s) != expect {
                    o.fail(
                        "wrong",
                        "C16/reduce_only_state",
                        format!("state {si}: reduce_only_state = {}, expected {expect}\n{}", !expect, src()),
                    );
                    return o;
                }
                if expect {
                    o.class("reduce-only-state");
                }
            }
            // closed state == LR(1) closure of the core state
            match (convert_itemset_sets(&b, &flat, s, false), convert_itemset_sets(&b, &flat, s, true)) {
                (Ok(core), Ok(closed)) => {
                    let exp = lr1::closure_sets(&flat, &fi, &core);
                    if closed.values().any(|l| l.is_empty()) {
                        // only with unproductive rules: the textbook closure would stop here
                        o.class("closure:item-with-empty-lookahead-set");
                    }
                    if exp != closed {
                        let missing: Vec<_> = exp.iter().filter(|(k, v)| closed.get(*k) != Some(*v)).take(4).collect();
                        let extra: Vec<_> = closed.iter().filter(|(k, v)| exp.get(*k) != Some(*v)).take(4).collect();
                        o.fail(
                            "wrong",
                            "C16/closed-state-not-closure",
                            format!("state {si}: closed state differs from the closure of its core: expected {missing:?}, got {extra:?} ((prod,dot): lookaheads); core {core:?}\n{}", src()),
                        );
                        return o;
                    }
                }
                (Err(e), _) | (_, Err(e)) => {
                    o.fail("wrong", "C16/item-out-of-grammar", format!("state {si}: {e}\n{}", src()));
                    return o;
                }
            }
            let _ = RIdx(0u32);
        }
        if nontrivial {
            o.nontrivial.push(hash64(&ag.canonical_string()));
            o.sample = Some(serde_json::json!({"grammar": render_simple(ag), "states": nstates}));
        }
        o
    }
}

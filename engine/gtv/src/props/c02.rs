//! C02 - state minimisation never costs an LR(1) grammar its determinism.

use crate::exec::{Outcome, Prop, Tier, hash64};
use crate::genr::grammar::{GenOpts, render_simple};
use crate::harness::{BuildErr, build, error_index, parse_tree, same_shape};
use crate::props::c01::{Case, check_tree, decode_case};
use crate::refimpl::lr1::{self, DriveResult};
use lrpar::RecoveryKind;
use serde_json::Value;

pub struct C02;

fn opts(tier: Tier) -> GenOpts {
    GenOpts {
        max_rules: tier.pick(4, 6),
        max_prods: 3,
        max_syms: 4,
        max_tokens: 4,
        allow_cycles: false,
        allow_unproductive: false,
        strata: [2, 0, 7, 1],
        precedence: false,
        avoid_insert: false,
        pad_tokens: true,
    }
}

impl Prop for C02 {
    fn id(&self) -> &'static str {
        "C02"
    }
    fn fuzz_target(&self) -> Option<&'static str> {
        Some("fz_choices")
    }
    fn stream_len(&self, _tier: Tier) -> usize {
        500
    }
    fn cases(&self, tier: Tier) -> u32 {
        tier.pick(400_000, 8_000_000)
    }
    fn decode(&self, choices: &[u32], tier: Tier) -> Value {
        let c = decode_case(choices, tier, &opts(tier), 15, &[4, 4, 1]);
        serde_json::to_value(c).unwrap()
    }
    fn rule(&self) -> String {
        "AG without precedence, cycle-free: stratum lr1 (70%: S: p_i M_f(i,j) s_j families with random f, Pager's paper example and mutations, embedded variants), rand, repo; 15 inputs each. Oracle: own canonical LR(1) construction (cap 3000 states): if it is conflict free then conflicts()==None, all_states_len()<=canonical count, and lrpar (recovery off) agrees with a driver over the canonical tables (same tree / same error index). Evaluation = one (grammar,input). Non-trivial: grammar is LR(1)-not-LALR(1) or Pager merged (fewer states than canonical), and the input has >=3 lexemes; distinct by hash(grammar,input).".into()
    }
    fn assumptions(&self) -> Vec<String> {
        vec!["canonical LR(1) reference construction and its driver are the trusted base (self-tested against Earley)".into()]
    }
    fn required_classes(&self, _tier: Tier) -> Vec<&'static str> {
        vec!["lr1", "lalr1", "lr1_not_lalr1", "merged", "not_lr1"]
    }
    fn evaluate(&self, case: &Value) -> Outcome {
        let case: Case = serde_json::from_value(case.clone()).unwrap();
        let mut o = Outcome::new();
        let ag = &case.ag;
        o.evals = 1;
        let Some(lr) = lr1::build(ag, 3000) else {
            o.discard("canonical-too-large");
            return o;
        };
        if !lr.conflict_free() {
            o.class("not_lr1");
            o.discard("not-lr1");
            return o;
        }
        o.class("lr1");
        let (lalr_states, lalr_ok) = lr.lalr();
        o.class(if lalr_ok { "lalr1" } else { "lr1_not_lalr1" });
        let b = match build(ag) {
            Ok(b) => b,
            Err(BuildErr::Grammar(e)) => {
                o.fail("harness", "C02/grammar-rejected", format!("{e}\n{}", render_simple(ag)));
                return o;
            }
            Err(BuildErr::Table(e)) => {
                o.fail(
                    "wrong",
                    "C02/construction-refuses-lr1-grammar",
                    format!("LR(1) grammar refused by table construction: {e}\n{}", render_simple(ag)),
                );
                return o;
            }
        };
        if let Some(c) = b.st.conflicts() {
            o.fail(
                "wrong",
                "C02/conflicts-on-lr1-grammar",
                format!(
                    "canonical LR(1) is conflict free but construction reports {} s/r and {} r/r conflicts\n{}",
                    c.sr_len(),
                    c.rr_len(),
                    render_simple(ag)
                ),
            );
            return o;
        }
        let nst = usize::from(b.sg.all_states_len());
        if nst > lr.states.len() {
            o.fail(
                "wrong",
                "C02/more-states-than-canonical",
                format!("{} states, canonical LR(1) has {}\n{}", nst, lr.states.len(), render_simple(ag)),
            );
            return o;
        }
        let merged = nst < lr.states.len();
        o.class(if merged { "merged" } else { "no_merge" });
        if nst > lalr_states {
            o.class("split");
        }
        let gkey = ag.canonical_string();
        o.evals = 0;
        for (input, layout) in case.inputs.iter().zip(case.layouts.iter()) {
            o.evals += 1;
            let (tree, errs) = match parse_tree(&b, input, layout, RecoveryKind::None, None) {
                Ok(x) => x,
                Err(e) => {
                    o.fail("harness", "C02/harness", e);
                    return o;
                }
            };
            let refr = lr1::drive(&lr, input);
            if (!lalr_ok || merged) && input.len() >= 3 {
                o.nontrivial.push(hash64(&format!("{gkey}{input:?}")));
                if o.sample.is_none() {
                    o.sample = Some(serde_json::json!({
                        "grammar": render_simple(ag),
                        "input": input.iter().map(|t| ag.tokens[*t].clone()).collect::<Vec<_>>(),
                        "lalr1": lalr_ok, "pager_states": nst, "canonical_states": lr.states.len(),
                    }));
                }
            }
            match (&refr, &tree) {
                (DriveResult::Accept(rt), Some(t)) if errs.is_empty() => {
                    match check_tree(ag, t, input, layout) {
                        Ok(it) => {
                            if !same_shape(rt, &it, ag) {
                                o.fail(
                                    "wrong",
                                    "C02/tree-differs",
                                    format!("input {input:?}: canonical tree {rt:?}, implementation {it:?}"),
                                );
                                return o;
                            }
                        }
                        Err(e) => {
                            o.fail("wrong", "C02/invalid-tree", format!("input {input:?}: {e}"));
                            return o;
                        }
                    }
                }
                (DriveResult::Error(k, _), None) if errs.len() == 1 => {
                    match error_index(&b, &errs[0], input, layout) {
                        Ok(i) if i == *k => {}
                        Ok(i) => {
                            o.fail(
                                "wrong",
                                "C02/error-position-differs",
                                format!("input {input:?}: canonical parser errors at {k}, implementation at {i}\n{}", render_simple(ag)),
                            );
                            return o;
                        }
                        Err(e) => {
                            o.fail("wrong", "C02/bad-error-lexeme", format!("input {input:?}: {e}"));
                            return o;
                        }
                    }
                }
                _ => {
                    o.fail(
                        "wrong",
                        "C02/accept-reject-differs",
                        format!(
                            "input {input:?}: canonical {:?}, implementation value={} errors={}\n{}",
                            matches!(refr, DriveResult::Accept(_)),
                            tree.is_some(),
                            errs.len(),
                            render_simple(ag)
                        ),
                    );
                    return o;
                }
            }
        }
        o
    }
}

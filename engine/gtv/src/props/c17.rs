//! C17 - grammar analyses (FIRST, FOLLOW, nullable, reachability, costs) are exact and terminate.

use crate::exec::{Outcome, Prop, Tier, catch, hash64};
use crate::genr::choices::Choices;
use crate::genr::grammar::{AG, GenOpts, Sym, gen_grammar, has_derivation_cycle, render_simple};
use crate::harness::{BuildErr, generic_kind};
use crate::props::c01::vob_get;
use crate::refimpl::analyses::{self, INF};
use crate::refimpl::earley::Earley;
use cfgrammar::yacc::YaccGrammar;
use cfgrammar::{RIdx, TIdx};
use serde::{Deserialize, Serialize};
use serde_json::Value;
use std::collections::BTreeSet;

pub struct C17;

#[derive(Serialize, Deserialize, Debug, Clone)]
pub struct Case {
    pub ag: AG,
    /// cost per AG token, 1..=255
    pub costs: Vec<u8>,
    /// Only in the stored replay of the open finding: run nothing but `min_sentences` on a
    /// grammar with a derivation cycle (generated cases never set it).
    #[serde(default)]
    pub probe_min_sentences_on_cycle: bool,
}

fn opts(tier: Tier) -> GenOpts {
    GenOpts {
        max_rules: tier.pick(5, 7),
        max_prods: 4,
        max_syms: 4,
        max_tokens: 4,
        allow_cycles: true,
        allow_unproductive: true,
        strata: [8, 0, 1, 1],
        precedence: false,
        avoid_insert: false,
        pad_tokens: false,
    }
}

fn set_str(s: &BTreeSet<usize>, ag: &AG) -> String {
    let v: Vec<String> = s
        .iter()
        .map(|t| if *t == ag.tokens.len() { "$".to_string() } else { ag.tokens[*t].clone() })
        .collect();
    format!("{{{}}}", v.join(","))
}

impl Prop for C17 {
    fn id(&self) -> &'static str {
        "C17"
    }
    fn fuzz_target(&self) -> Option<&'static str> {
        Some("fz_choices")
    }
    fn stream_len(&self, _tier: Tier) -> usize {
        300
    }
    fn cases(&self, tier: Tier) -> u32 {
        tier.pick(800_000, 12_000_000)
    }
    fn watchdog_ms(&self) -> u64 {
        10_000
    }
    fn decode(&self, choices: &[u32], tier: Tier) -> Value {
        let mut ch = Choices::new(choices);
        let mut ag = gen_grammar(&mut ch, &opts(tier));
        // sprinkle nullable neighbours: with some probability insert a nullable rule between a
        // rule and what follows it
        if ch.chance(1, 3) {
            let nul = analyses::nullable(&ag);
            let nullable_rules: Vec<usize> = (0..ag.rules.len()).filter(|i| nul[*i]).collect();
            if !nullable_rules.is_empty() {
                let r = ch.pick(ag.rules.len());
                let p = ch.pick(ag.rules[r].prods.len());
                let l = ag.rules[r].prods[p].syms.len();
                if l >= 2 {
                    let pos = 1 + ch.pick(l - 1);
                    let n = *ch.choose(&nullable_rules);
                    ag.rules[r].prods[p].syms.insert(pos, Sym::R(n));
                }
            }
        }
        let mode = ch.weighted(&[2, 2, 2]);
        let costs: Vec<u8> = (0..ag.tokens.len())
            .map(|_| match mode {
                0 => 1,
                1 => 1 + ch.pick(4) as u8,
                _ => 1 + ch.pick(255) as u8,
            })
            .collect();
        serde_json::to_value(Case {
            ag,
            costs,
            probe_min_sentences_on_cycle: false,
        })
        .unwrap()
    }
    fn rule(&self) -> String {
        "AG from stratum rand with the full feature set (empty productions, nullable symbols anywhere, unit chains and unit cycles, unproductive and unreachable rules), plus lr1/repo grammars; token costs all 1 / 1..4 / 1..255. Oracle: refimpl::analyses (graph closures, relaxation from infinity, longest path) and Earley for derivability of generated minimal sentences; exact on reduced grammars, between the terminal-string and sentential-form readings otherwise. Evaluation = one (grammar,cost function) with every rule queried. Non-trivial: a production has a nullable symbol between a rule and what follows it, or the grammar has a derivation cycle, or an unproductive rule, or non-uniform costs where the cheapest production is not the shortest; distinct by hash(grammar,costs).".into()
    }
    fn assumptions(&self) -> Vec<String> {
        vec![
            "on grammars with an unproductive rule the cost iteration's documented overflow panic counts as termination and cost queries are not judged".into(),
            "max cost asserted only on reduced, derivation-cycle-free grammars whose finite maxima stay below 60000".into(),
            "on non-reduced grammars FIRST/FOLLOW only have to lie between the terminal-string reading and the sentential-form reading".into(),
        ]
    }
    fn abnormal_signature(&self, case: &Value, kind: &str) -> String {
        if case
            .get("probe_min_sentences_on_cycle")
            .and_then(|x| x.as_bool())
            .unwrap_or(false)
        {
            format!("{kind}:C17/min_sentences-on-derivation-cycle")
        } else {
            format!("{kind}:C17")
        }
    }
    fn required_classes(&self, _tier: Tier) -> Vec<&'static str> {
        vec![
            "reduced",
            "non-reduced",
            "derivation-cycle",
            "unproductive-rule",
            "unreachable-rule",
            "nullable-between",
            "costs-checked",
            "max-unbounded",
            "max-bounded",
        ]
    }
    fn evaluate(&self, case: &Value) -> Outcome {
        let case: Case = serde_json::from_value(case.clone()).unwrap();
        let mut o = Outcome::new();
        o.evals = 1;
        let ag = &case.ag;
        let src = render_simple(ag);
        let b = match crate::harness::build_grammar_only::<u32>(ag, src.clone(), generic_kind()) {
            Ok(b) => b,
            Err(BuildErr::Grammar(e)) => {
                o.fail("harness", "C17/grammar-rejected", format!("{e}\n{src}"));
                return o;
            }
            Err(BuildErr::Table(_)) => unreachable!(),
        };
        let grm: &YaccGrammar<u32> = &b.0;
        let tokmap: &Vec<TIdx<u32>> = &b.1;
        let rulemap: &Vec<RIdx<u32>> = &b.2;
        let an = analyses::analyses(ag);
        let reduced = an.productive.iter().all(|x| *x) && an.reachable.iter().all(|x| *x);
        let cyc = has_derivation_cycle(ag);
        let any_unprod = an.productive.iter().any(|x| !*x);
        o.class(if reduced { "reduced" } else { "non-reduced" });
        let mut nontrivial = false;
        if cyc {
            o.class("derivation-cycle");
            nontrivial = true;
        }
        if any_unprod {
            o.class("unproductive-rule");
            nontrivial = true;
        }
        if an.reachable.iter().any(|x| !*x) {
            o.class("unreachable-rule");
        }
        for r in &ag.rules {
            for p in &r.prods {
                for w in p.syms.windows(3) {
                    if let (Sym::R(_), Sym::R(n), _) = (w[0], w[1], w[2]) {
                        if an.nullable[n] {
                            o.class("nullable-between");
                            nontrivial = true;
                        }
                    }
                }
            }
        }
        let ntok = usize::from(grm.tokens_len());
        let eof = ag.tokens.len();
        let to_ag_set = |v: &vob::Vob| -> Result<BTreeSet<usize>, String> {
            let mut s = BTreeSet::new();
            for t in 0..ntok {
                if vob_get(v, t) {
                    if TIdx(t as u32) == grm.eof_token_idx() {
                        s.insert(eof);
                    } else {
                        s.insert(
                            tokmap
                                .iter()
                                .position(|x| usize::from(*x) == t)
                                .ok_or_else(|| format!("unknown token index {t}"))?,
                        );
                    }
                }
            }
            Ok(s)
        };

        // FIRST / epsilon
        let firsts = match catch(|| grm.firsts()) {
            Ok(f) => f,
            Err(p) => {
                o.fail("panic", format!("C17/firsts/{}", p.signature()), format!("{}\n{src}", p.detail()));
                return o;
            }
        };
        let f_lo = analyses::firsts(ag, false);
        let f_hi = analyses::firsts(ag, true);
        for (r, ridx) in rulemap.iter().enumerate() {
            if firsts.is_epsilon_set(*ridx) != an.nullable[r] {
                o.fail(
                    "wrong",
                    "C17/epsilon",
                    format!("rule {}: epsilon flag {}, nullable {}\n{src}", ag.rules[r].name, firsts.is_epsilon_set(*ridx), an.nullable[r]),
                );
                return o;
            }
            let got = match to_ag_set(firsts.firsts(*ridx)) {
                Ok(s) => s,
                Err(e) => {
                    o.fail("wrong", "C17/first/bad-token", e);
                    return o;
                }
            };
            if !(f_lo[r].is_subset(&got) && got.is_subset(&f_hi[r])) {
                o.fail(
                    "wrong",
                    if f_lo[r].is_subset(&got) { "C17/first/extra" } else { "C17/first/missing" },
                    format!("FIRST({}) = {}, expected between {} and {}\n{src}", ag.rules[r].name, set_str(&got, ag), set_str(&f_lo[r], ag), set_str(&f_hi[r], ag)),
                );
                return o;
            }
        }
        // FOLLOW
        let follows = match catch(|| grm.follows()) {
            Ok(f) => f,
            Err(p) => {
                o.fail("panic", format!("C17/follows/{}", p.signature()), format!("{}\n{src}", p.detail()));
                return o;
            }
        };
        let fo_lo = analyses::follows(ag, false, true);
        let fo_hi = analyses::follows(ag, true, false);
        for (r, ridx) in rulemap.iter().enumerate() {
            let got = match to_ag_set(follows.follows(*ridx)) {
                Ok(s) => s,
                Err(e) => {
                    o.fail("wrong", "C17/follow/bad-token", e);
                    return o;
                }
            };
            let lo = if an.reachable[r] { fo_lo[r].clone() } else { BTreeSet::new() };
            if !(lo.is_subset(&got) && got.is_subset(&fo_hi[r])) {
                o.fail(
                    "wrong",
                    if lo.is_subset(&got) { "C17/follow/extra" } else { "C17/follow/missing" },
                    format!("FOLLOW({}) = {}, expected between {} and {}\n{src}", ag.rules[r].name, set_str(&got, ag), set_str(&lo, ag), set_str(&fo_hi[r], ag)),
                );
                return o;
            }
        }
        // has_path
        let path = analyses::has_path(ag);
        for (a, aidx) in rulemap.iter().enumerate() {
            for (bq, bidx) in rulemap.iter().enumerate() {
                let got = grm.has_path(*aidx, *bidx);
                if got != path[a][bq] {
                    o.fail(
                        "wrong",
                        "C17/has_path",
                        format!("has_path({},{}) = {got}, expected {}\n{src}", ag.rules[a].name, ag.rules[bq].name, path[a][bq]),
                    );
                    return o;
                }
            }
            // from the added start rule
            let got = grm.has_path(grm.start_rule_idx(), *aidx);
            let exp = a == ag.start || path[ag.start][a];
            if got != exp {
                o.fail("wrong", "C17/has_path/start", format!("has_path(^,{}) = {got}, expected {exp}\n{src}", ag.rules[a].name));
                return o;
            }
        }

        // costs
        let mut cost_by_tidx = vec![1u8; ntok];
        for (t, tidx) in tokmap.iter().enumerate() {
            cost_by_tidx[usize::from(*tidx)] = case.costs[t];
        }
        let sg = grm.sentence_generator(|t| cost_by_tidx[usize::from(t)]);
        let mc = analyses::min_costs(ag, &case.costs);
        if case.costs.iter().any(|c| *c != case.costs[0]) {
            // cheapest production not the shortest somewhere?
            for (r, rule) in ag.rules.iter().enumerate() {
                let info: Vec<(u64, usize)> = rule
                    .prods
                    .iter()
                    .map(|p| {
                        (
                            p.syms.iter().fold(0u64, |a, s| {
                                a.saturating_add(match s {
                                    Sym::T(t) => case.costs[*t] as u64,
                                    Sym::R(j) => mc[*j],
                                })
                            }),
                            p.syms.len(),
                        )
                    })
                    .collect();
                if let (Some(cheapest), Some(shortest)) =
                    (info.iter().min_by_key(|x| x.0), info.iter().min_by_key(|x| x.1))
                {
                    if cheapest.0 < INF && cheapest.1 > shortest.1 && mc[r] < INF {
                        nontrivial = true;
                        o.class("cheapest-not-shortest");
                    }
                }
            }
        }
        if nontrivial {
            o.nontrivial.push(hash64(&format!("{}{:?}", ag.canonical_string(), case.costs)));
            o.sample = Some(serde_json::json!({"grammar": src, "costs": case.costs}));
        }
        let first_rule = rulemap[0];
        match catch(|| sg.min_sentence_cost(first_rule)) {
            Ok(_) => {}
            Err(p) => {
                if any_unprod && p.msg.contains("Overflow occurred when calculating rule costs") {
                    o.class("overflow-panic-on-unproductive");
                    return o;
                }
                o.fail("panic", format!("C17/min_cost/{}", p.signature()), format!("{}\n{src}", p.detail()));
                return o;
            }
        }
        if any_unprod {
            // costs of an unproductive rule are meaningless; the iteration terminated: enough
            o.class("unproductive-no-panic");
            return o;
        }
        o.class("costs-checked");
        for (r, ridx) in rulemap.iter().enumerate() {
            let got = sg.min_sentence_cost(*ridx) as u64;
            if got != mc[r] {
                o.fail(
                    "wrong",
                    "C17/min_cost/wrong",
                    format!("min_sentence_cost({}) = {got}, true minimum {} (costs {:?})\n{src}", ag.rules[r].name, mc[r], case.costs),
                );
                return o;
            }
        }
        if case.probe_min_sentences_on_cycle {
            // known finding C17-min-sentences-derivation-cycle: does not return
            let _ = sg.min_sentences(rulemap[0]);
            let _ = sg.min_sentence(rulemap[0]);
            return o;
        }
        // minimal sentences: derivable and of minimal cost
        if cyc {
            // open known finding: min_sentence / min_sentences do not terminate when a cheapest
            // production lies on a derivation cycle; excluded by construction and counted
            o.class("excluded:min-sentence-on-derivation-cycle");
        }
        let earley = Earley::new(ag);
        let tok_cost = |t: TIdx<u32>| -> (usize, u64) {
            let a = tokmap.iter().position(|x| *x == t).unwrap_or(usize::MAX);
            (a, if a == usize::MAX { 0 } else { case.costs[a] as u64 })
        };
        for (r, ridx) in rulemap.iter().enumerate() {
            if cyc {
                break;
            }
            let ms = match catch(|| sg.min_sentence(*ridx)) {
                Ok(m) => m,
                Err(p) => {
                    o.fail("panic", format!("C17/min_sentence/{}", p.signature()), format!("{}\n{src}", p.detail()));
                    return o;
                }
            };
            let mut all = vec![ms];
            // min_sentences enumerates a cross product of all cheapest derivations: keep it to
            // small grammars with short minimal sentences, and bound the oracle's own work
            let unit = vec![1u8; ag.tokens.len()];
            let min_len = analyses::min_costs(ag, &unit)[r];
            if ag.nprods() <= 10 && min_len <= 8 {
                match catch(|| sg.min_sentences(*ridx)) {
                    Ok(m) => {
                        if m.is_empty() {
                            o.fail("wrong", "C17/min_sentences/empty", format!("rule {}\n{src}", ag.rules[r].name));
                            return o;
                        }
                        all.extend(m);
                    }
                    Err(p) => {
                        o.fail("panic", format!("C17/min_sentences/{}", p.signature()), format!("{}\n{src}", p.detail()));
                        return o;
                    }
                }
            }
            for s in all.into_iter().take(40) {
                if s.len() > 40 {
                    o.class("minimal-sentence-too-long-for-oracle");
                    continue;
                }
                let toks: Vec<usize> = s.iter().map(|t| tok_cost(*t).0).collect();
                let c: u64 = s.iter().map(|t| tok_cost(*t).1).sum();
                if toks.contains(&usize::MAX) || !earley.derives(r, &toks) {
                    o.fail(
                        "wrong",
                        "C17/min_sentence/not-derivable",
                        format!("rule {}: generated sentence {:?} is not derivable\n{src}", ag.rules[r].name, toks),
                    );
                    return o;
                }
                if c != mc[r] {
                    o.fail(
                        "wrong",
                        "C17/min_sentence/not-minimal",
                        format!("rule {}: generated sentence {:?} costs {c}, minimum is {}\n{src}", ag.rules[r].name, toks, mc[r]),
                    );
                    return o;
                }
            }
        }
        // max costs
        if reduced && !cyc {
            let mx = analyses::max_costs(ag, &case.costs);
            if mx.iter().any(|m| matches!(m, Some(v) if *v >= 60_000)) {
                o.class("max-too-large");
                return o;
            }
            for (r, ridx) in rulemap.iter().enumerate() {
                let got = match catch(|| sg.max_sentence_cost(*ridx)) {
                    Ok(g) => g.map(|x| x as u64),
                    Err(p) => {
                        o.fail("panic", format!("C17/max_cost/{}", p.signature()), format!("{}\n{src}", p.detail()));
                        return o;
                    }
                };
                o.class(if mx[r].is_none() { "max-unbounded" } else { "max-bounded" });
                if got != mx[r] {
                    o.fail(
                        "wrong",
                        "C17/max_cost/wrong",
                        format!("max_sentence_cost({}) = {got:?}, expected {:?} (costs {:?})\n{src}", ag.rules[r].name, mx[r], case.costs),
                    );
                    return o;
                }
            }
        } else {
            // termination only
            for ridx in rulemap.iter() {
                if let Err(p) = catch(|| sg.max_sentence_cost(*ridx)) {
                    if p.msg.contains("Overflow occurred") || p.msg.contains("Unable to represent cost") {
                        o.class("max-overflow-panic");
                        break;
                    }
                    o.fail("panic", format!("C17/max_cost/{}", p.signature()), format!("{}\n{src}", p.detail()));
                    return o;
                }
            }
        }
        o
    }
}

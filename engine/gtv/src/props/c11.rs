//! C11 - a lexer definition is a faithful image of its `.l` source.

use crate::exec::{Outcome, Prop, Tier, catch, hash64};
use crate::genr::choices::Choices;
use crate::genr::lexspec::{AL, AlFlags, Op, Re, RenderOpts, gen_al, render};
use crate::props::c09::{build_ref, lex_flags_of, sample};
use cfgrammar::Spanned;
use lrlex::{DefaultLexerTypes, LRNonStreamingLexerDef, LexerDef, StartStateOperation};
use lrpar::{LexError, Lexeme, Lexer};
use serde::{Deserialize, Serialize};
use serde_json::Value;

pub struct C11;
type LT = DefaultLexerTypes<u32>;

#[derive(Serialize, Deserialize, Debug, Clone)]
pub struct Case {
    pub al: AL,
    pub opts: RenderOpts,
    /// sample strings per rule for the behavioural comparison
    pub samples: Vec<Vec<String>>,
    /// 0: flags in the %grmtools section + from_str; 1: flags through new_with_options (no
    /// section); 2: new_with_options with a section carrying *different* flags (ignored)
    pub flag_mode: u8,
    /// a mutation making the specification invalid (None = valid)
    pub mutation: Option<(u8, usize)>,
}

fn op_of(o: &StartStateOperation) -> Op {
    match o {
        StartStateOperation::ReplaceStack => Op::Replace,
        StartStateOperation::Push => Op::Push,
        StartStateOperation::Pop => Op::Pop,
    }
}

fn first_match_len(def: &LRNonStreamingLexerDef<LT>, s: &str) -> Result<usize, String> {
    let lexer = def.lexer(s);
    match lexer.iter().next() {
        None => Ok(0),
        Some(Ok(l)) => {
            if l.span().start() != 0 {
                return Err(format!("first lexeme starts at {}", l.span().start()));
            }
            Ok(l.span().len())
        }
        Some(Err(e)) => {
            if e.span().start() == 0 {
                Ok(0)
            } else {
                Err(format!("error at {}", e.span().start()))
            }
        }
    }
}

fn inverted(f: &AlFlags) -> AlFlags {
    AlFlags {
        dot_matches_new_line: Some(!f.eff_dot_nl()),
        multi_line: f.multi_line,
        octal: f.octal, // keep: `\141` validity depends on it
        posix_escapes: Some(!f.eff_posix()),
        allow_wholeline_comments: f.allow_wholeline_comments,
        case_insensitive: Some(!f.eff_ci()),
        swap_greed: Some(!f.eff_swap_greed()),
        ignore_whitespace: f.ignore_whitespace,
        // the contradicting section gets the other extreme of each limit that is set
        size_limit: f.size_limit.map(|n| if n == 64 { 10_000_000 } else { 64 }),
        dfa_size_limit: f.dfa_size_limit.map(|n| if n == 64 { 10_000_000 } else { 64 }),
        nest_limit: f.nest_limit.map(|n| if n == 3 { 1000 } else { 3 }),
        unicode: f.unicode.map(|b| !b),
    }
}

fn check_spans(o: &mut Outcome, what: &str, spans: &[cfgrammar::Span], text: &str) -> bool {
    for sp in spans {
        if !(sp.start() <= sp.end() && sp.end() <= text.len())
            || !text.is_char_boundary(sp.start())
            || !text.is_char_boundary(sp.end())
        {
            o.fail(
                "wrong",
                "C11/error-span-out-of-text",
                format!("{what}: span {}..{} is not a valid range of the {}-byte text\n{text}", sp.start(), sp.end(), text.len()),
            );
            return false;
        }
    }
    true
}

impl Prop for C11 {
    fn id(&self) -> &'static str {
        "C11"
    }
    fn fuzz_target(&self) -> Option<&'static str> {
        Some("fz_choices")
    }
    fn stream_len(&self, _tier: Tier) -> usize {
        700
    }
    fn cases(&self, tier: Tier) -> u32 {
        tier.pick(300_000, 5_000_000)
    }
    fn decode(&self, choices: &[u32], _tier: Tier) -> Value {
        let mut ch = Choices::new(choices);
        let al = gen_al(&mut ch, 5);
        let flag_mode = ch.weighted(&[3, 1, 1]) as u8;
        let opts = RenderOpts::generate(&mut ch, al.rules.len(), flag_mode != 1);
        let mut samples = vec![];
        for r in &al.rules {
            let mut v = vec![];
            for _ in 0..8 {
                let mut s = String::new();
                sample(&mut ch, &r.re, &mut s);
                match ch.weighted(&[4, 2, 1, 1]) {
                    0 => {}
                    1 => s.push(*ch.choose(&['a', 'B', 'q', '1', 'é', '\n', '<'])),
                    2 => {
                        s.insert(0, *ch.choose(&['a', 'b', '0']));
                    }
                    _ => {
                        s = s.to_uppercase();
                    }
                }
                v.push(s);
            }
            samples.push(v);
        }
        let mutation = if ch.chance(1, 5) {
            Some((ch.pick(6) as u8, ch.pick(1000)))
        } else {
            None
        };
        serde_json::to_value(Case {
            al,
            opts,
            samples,
            flag_mode,
            mutation,
        })
        .unwrap()
    }
    fn rule(&self) -> String {
        "AL (as C09) x renderings (with/without %grmtools section of varying layout, 'n' vs \"n\", ; vs \"\" vs '', blank lines, // comment lines when allowed, tab/space separators, trailing spaces, %s/%x on one or several lines) x flag placement (section + from_str / new_with_options / new_with_options with a contradicting section). Oracle: iter_rules = the AL's rules in order (name, start-state ids, target id+op), name_span slices the user's text to the name, iter_start_states = INITIAL + declared states with kind and name spans; per rule 8 sample strings: match length of a one-rule projection of the source (with an <INITIAL> prefix if the rule has a prefix) equals that of a regex built from the AST with the flags in force; invalid variants (1/5 of cases: duplicate rule name / state, broken quote, unknown state, garbage line, missing %%): every error span inside the text on char boundaries, duplicate errors slice to the duplicated name. Evaluation = one (spec,rendering). Non-trivial: a rule has a 'neither' escape, a start-state prefix, or a target operation, or the source has a header, or a multi-byte character occurs before a rule's name; distinct by hash(text).".into()
    }
    fn assumptions(&self) -> Vec<String> {
        vec!["re_str() text itself is not compared, only its denotation through lexing behaviour".into()]
    }
    fn required_classes(&self, _tier: Tier) -> Vec<&'static str> {
        vec![
            "has-header",
            "no-header",
            "neither-escape",
            "state-prefix",
            "target-op",
            "flag-mode:0",
            "flag-mode:1",
            "flag-mode:2",
            "invalid:duplicate-name",
            "invalid:duplicate-state",
            "invalid:other",
            "multibyte-before-name",
        ]
    }
    fn evaluate(&self, case: &Value) -> Outcome {
        let case: Case = serde_json::from_value(case.clone()).unwrap();
        let mut o = Outcome::new();
        o.evals = 1;
        let al = &case.al;
        // the flags that must be in force
        let (text, lay) = match case.flag_mode {
            0 | 1 => render(al, &case.opts),
            _ => {
                // section says the opposite; the builder's flags win
                let mut al2 = al.clone();
                al2.flags = inverted(&al.flags);
                render(&al2, &case.opts)
            }
        };
        o.class(&format!("flag-mode:{}", case.flag_mode));
        o.class(if lay.header_len > 0 { "has-header" } else { "no-header" });

        // ---- invalid variants
        if let Some((kind, pos)) = case.mutation {
            let mut lines: Vec<String> = text.lines().map(|l| l.to_string()).collect();
            let sep = lines.iter().position(|l| l == "%%").unwrap_or(0);
            let rule_lines: Vec<usize> = (sep + 1..lines.len())
                .filter(|i| !lines[*i].trim().is_empty() && !lines[*i].starts_with("//"))
                .collect();
            let mut expect_dup_name: Option<String> = None;
            let mut expect_dup_state: Option<String> = None;
            match kind {
                0 => {
                    // duplicate a named rule line
                    let named: Vec<usize> = al.rules.iter().enumerate().filter(|(_, r)| r.name.is_some()).map(|(i, _)| i).collect();
                    if named.is_empty() || rule_lines.len() != al.rules.len() {
                        o.discard("mutation-not-applicable");
                        return o;
                    }
                    let k = named[pos % named.len()];
                    let l = lines[rule_lines[k]].clone();
                    lines.push(l);
                    expect_dup_name = al.rules[k].name.clone();
                    o.class("invalid:duplicate-name");
                }
                1 => {
                    if al.states.is_empty() {
                        o.discard("mutation-not-applicable");
                        return o;
                    }
                    let k = pos % al.states.len();
                    lines.insert(sep, format!("%s {}", al.states[k].0));
                    expect_dup_state = Some(al.states[k].0.clone());
                    o.class("invalid:duplicate-state");
                }
                2 => {
                    // break a quote
                    if rule_lines.is_empty() {
                        o.discard("mutation-not-applicable");
                        return o;
                    }
                    let k = rule_lines[pos % rule_lines.len()];
                    let t = lines[k].trim_end().to_string();
                    lines[k] = t[..t.len() - t.chars().last().map(|c| c.len_utf8()).unwrap_or(0)].to_string();
                    o.class("invalid:other");
                }
                3 => {
                    lines.push("<NOSUCHSTATE>a 'ZZ'".into());
                    o.class("invalid:other");
                }
                4 => {
                    lines.insert(sep, "%é漢 garbage".into());
                    o.class("invalid:other");
                }
                _ => {
                    lines.remove(sep);
                    o.class("invalid:other");
                }
            }
            let bad = lines.join("\n") + "\n";
            let r = catch(|| LRNonStreamingLexerDef::<LT>::from_str(&bad));
            match r {
                Err(p) => {
                    o.fail("panic", format!("C11/{}", p.signature()), format!("{}\n{bad}", p.detail()));
                }
                Ok(Ok(_)) => {
                    // some mutations may still be valid (e.g. removing a quote from `;`)
                    o.class("mutation-still-valid");
                }
                Ok(Err(errs)) => {
                    if errs.is_empty() {
                        o.fail("wrong", "C11/err-without-errors", bad.clone());
                        return o;
                    }
                    for e in &errs {
                        if !check_spans(&mut o, &format!("{e}"), e.spans(), &bad) {
                            return o;
                        }
                        let msg = format!("{e}");
                        let dup = if msg.contains("Rule name already exists") {
                            expect_dup_name.as_ref()
                        } else if msg.contains("Start state already exists") {
                            expect_dup_state.as_ref()
                        } else {
                            None
                        };
                        if let Some(name) = dup {
                            if e.spans().len() < 2 || e.spans().iter().any(|sp| &bad[sp.start()..sp.end()] != name) {
                                o.fail(
                                    "wrong",
                                    "C11/duplicate-error-span",
                                    format!("'{msg}': spans {:?} slice to {:?}, expected every span to slice to {name:?}\n{bad}", e.spans(), e.spans().iter().map(|sp| &bad[sp.start()..sp.end()]).collect::<Vec<_>>()),
                                );
                                return o;
                            }
                        }
                    }
                }
            }
            o.nontrivial.push(hash64(&bad));
            return o;
        }

        // ---- valid specification
        let built = catch(|| match case.flag_mode {
            0 => LRNonStreamingLexerDef::<LT>::from_str(&text),
            _ => LRNonStreamingLexerDef::<LT>::new_with_options(&text, lex_flags_of(&al.flags)),
        });
        let def = match built {
            Err(p) => {
                o.fail("panic", format!("C11/{}", p.signature()), format!("{}\n{text}", p.detail()));
                return o;
            }
            Ok(Err(errs)) => {
                // the reference regex decides whether the generator produced a valid regex
                for (ri, r) in al.rules.iter().enumerate() {
                    if build_ref(&r.re.reference_top(&al.flags, case.opts.bare_alt.get(ri).copied().unwrap_or(false)), &al.flags).is_err() {
                        o.discard("reference-regex-rejected");
                        return o;
                    }
                }
                o.fail(
                    "wrong",
                    "C11/valid-spec-rejected",
                    format!("{:?}\n{text}", errs.iter().map(|e| format!("{e} {:?}", e.spans())).collect::<Vec<_>>()),
                );
                return o;
            }
            Ok(Ok(d)) => {
                // a size limit in force rejects what the same limit makes the regex crate reject
                if al.flags.size_limit.is_some() {
                    o.class("size-limit-set");
                    for (ri, r) in al.rules.iter().enumerate() {
                        if let Err(e) = build_ref(&r.re.reference_top(&al.flags, case.opts.bare_alt.get(ri).copied().unwrap_or(false)), &al.flags) {
                            if e.contains("size limit") {
                                o.fail("wrong", "C11/flag-not-in-force/size_limit", format!("accepted although size_limit {:?} makes the regex engine reject `{}`: {e}\n{text}", al.flags.size_limit, r.re.written()));
                                return o;
                            }
                        }
                    }
                }
                d
            }
        };
        // structure
        let rules: Vec<_> = def.iter_rules().collect();
        if rules.len() != al.rules.len() {
            o.fail("wrong", "C11/rule-count", format!("{} rules, source has {}\n{text}", rules.len(), al.rules.len()));
            return o;
        }
        let mut nontrivial = lay.header_len > 0;
        for (i, (r, ar)) in rules.iter().zip(al.rules.iter()).enumerate() {
            if r.name() != ar.name.as_deref() {
                o.fail("wrong", "C11/rule-name", format!("rule {i}: name {:?}, source has {:?}\n{text}", r.name(), ar.name));
                return o;
            }
            if r.start_states() != ar.states.as_slice() {
                o.fail("wrong", "C11/rule-start-states", format!("rule {i}: start states {:?}, source has {:?}\n{text}", r.start_states(), ar.states));
                return o;
            }
            let tgt = r.target_state().map(|(id, op)| (id, op_of(&op)));
            if tgt != ar.target {
                o.fail("wrong", "C11/rule-target", format!("rule {i}: target {:?}, source has {:?}\n{text}", tgt, ar.target));
                return o;
            }
            let sp = r.name_span();
            let (es, ee) = lay.rule_names[i];
            let ok = sp.start() <= sp.end()
                && sp.end() <= text.len()
                && text.is_char_boundary(sp.start())
                && text.is_char_boundary(sp.end());
            if !ok || (sp.start(), sp.end()) != (es, ee) {
                let sig = if lay.header_len > 0 && (sp.start() + lay.header_len == es || sp.start() < es && ar.target.is_none()) {
                    "C11/name-span/relative-to-text-after-header"
                } else if ar.target.is_some() {
                    "C11/name-span/with-target-state"
                } else {
                    "C11/name-span"
                };
                o.fail(
                    "wrong",
                    sig,
                    format!(
                        "rule {i}: name_span {}..{} slices the text to {:?}; the name {:?} is at {es}..{ee}\n{text}",
                        sp.start(),
                        sp.end(),
                        if ok { &text[sp.start()..sp.end()] } else { "<invalid range>" },
                        ar.name
                    ),
                );
                return o;
            }
            if ar.re.has_neither_escape() {
                o.class("neither-escape");
                nontrivial = true;
            }
            if !ar.states.is_empty() {
                o.class("state-prefix");
                nontrivial = true;
            }
            if ar.target.is_some() {
                o.class("target-op");
                nontrivial = true;
            }
            if text[..es].chars().any(|c| c.len_utf8() > 1) {
                o.class("multibyte-before-name");
                nontrivial = true;
            }
        }
        let sts: Vec<_> = def.iter_start_states().collect();
        if sts.len() != al.states.len() + 1 {
            o.fail("wrong", "C11/state-count", format!("{} start states, expected {}\n{text}", sts.len(), al.states.len() + 1));
            return o;
        }
        if sts[0].name() != "INITIAL" {
            o.fail("wrong", "C11/initial-state", format!("first start state is {:?}", sts[0].name()));
            return o;
        }
        for (k, (name, _excl)) in al.states.iter().enumerate() {
            let st = sts[k + 1];
            let sp = st.name_span();
            let (es, ee) = lay.state_names[k];
            if st.name() != name {
                o.fail("wrong", "C11/state-name", format!("state {}: {:?} vs {:?}\n{text}", k + 1, st.name(), name));
                return o;
            }
            if (sp.start(), sp.end()) != (es, ee) {
                o.fail(
                    "wrong",
                    if lay.header_len > 0 { "C11/state-span/relative-to-text-after-header" } else { "C11/state-span" },
                    format!("state {name}: name_span {}..{}, the name is at {es}..{ee}\n{text}", sp.start(), sp.end()),
                );
                return o;
            }
        }
        // kind (inclusive/exclusive) and dense ids are observable through behaviour (C09) and
        // through the generated code; here: ids through rule references
        // ---- behavioural regex faithfulness, one-rule projections
        let header = if lay.header_len > 0 { &text[..lay.header_len] } else { "" };
        for (i, ar) in al.rules.iter().enumerate() {
            // (the projection below writes the rule with `written()`, a top-level alternation in
            // parentheses: the reference pattern has the same grouping)
            let Ok(rx) = build_ref(&ar.re.reference(&al.flags), &al.flags) else {
                o.class("reference-regex-rejected");
                continue;
            };
            // a rule written with a <..> prefix keeps one in its projection (the expression after a
            // prefix is handled by code of its own)
            let prefix = if ar.states.is_empty() { "" } else { "<INITIAL>" };
            let proj = format!("{header}\n%%\n{prefix}{} 'X'\n", ar.re.written());
            let pd = catch(|| match case.flag_mode {
                0 => LRNonStreamingLexerDef::<LT>::from_str(&proj),
                _ => LRNonStreamingLexerDef::<LT>::new_with_options(&proj, lex_flags_of(&al.flags)),
            });
            let pd = match pd {
                Ok(Ok(d)) => d,
                Ok(Err(errs)) => {
                    o.fail("wrong", "C11/projection-rejected", format!("{:?}\n{proj}", errs.iter().map(|e| e.to_string()).collect::<Vec<_>>()));
                    return o;
                }
                Err(p) => {
                    o.fail("panic", format!("C11/{}", p.signature()), format!("{}\n{proj}", p.detail()));
                    return o;
                }
            };
            for s in &case.samples[i] {
                let exp = rx.find(s).map(|m| m.end()).unwrap_or(0);
                match first_match_len(&pd, s) {
                    Ok(got) if got == exp => {}
                    Ok(got) => {
                        let sig = if ar.re.mentions(&|r| matches!(r, Re::SlashB)) && al.flags.eff_posix() {
                            "C11/regex-denotation/posix-backspace"
                        } else if ar.re.has_neither_escape() {
                            "C11/regex-denotation/neither-escape"
                        } else {
                            "C11/regex-denotation"
                        };
                        o.fail(
                            "wrong",
                            sig,
                            format!("rule {i} `{}` on {s:?}: the built definition matches {got} bytes, the written expression denotes a match of {exp} bytes (flags in force {:?}, mode {})\n{text}", ar.re.written(), al.flags, case.flag_mode),
                        );
                        return o;
                    }
                    Err(e) => {
                        o.fail("wrong", "C11/projection-lexing", format!("{e}\n{proj}"));
                        return o;
                    }
                }
            }
        }
        if nontrivial {
            o.nontrivial.push(hash64(&text));
            o.sample = Some(serde_json::json!({"text": text, "flag_mode": case.flag_mode}));
        }
        o
    }
}

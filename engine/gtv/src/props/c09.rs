//! C09 - the lexer does longest match, earliest rule on ties, start states; lexemes tile the input.

use crate::exec::{Outcome, Prop, Tier, catch, hash64};
use crate::genr::choices::Choices;
use crate::genr::lexspec::{AL, AlFlags, Op, RenderOpts, gen_al, render};
use cfgrammar::Span;
use lrlex::{
    DefaultLexerTypes, LRNonStreamingLexerDef, LexFlags, LexerDef, Rule, StartState,
    StartStateOperation, DEFAULT_LEX_FLAGS,
};
use lrpar::{LexError, Lexeme, Lexer};
use regex::{Regex, RegexBuilder};
use serde::{Deserialize, Serialize};
use serde_json::Value;
use std::collections::{BTreeSet, HashMap};

pub struct C09;

type LT = DefaultLexerTypes<u32>;

#[derive(Serialize, Deserialize, Debug, Clone)]
pub struct Case {
    pub al: AL,
    pub inputs: Vec<String>,
    /// name -> id map handed to set_rule_ids: ids for some rule names (by rule index) ...
    pub ids: Vec<(usize, u32)>,
    /// ... plus names the lexer does not have
    pub extra_names: Vec<String>,
    /// also exercise Rule::new + from_rules with the first `dup` rule names duplicated
    pub dup_names: bool,
    /// rule i's top-level alternation is written without parentheses / a group
    #[serde(default)]
    pub bare_alt: Vec<bool>,
}

pub fn ref_regex(al: &AL, i: usize, bare: bool) -> Result<Regex, String> {
    build_ref(&al.rules[i].re.reference_top(&al.flags, bare), &al.flags)
}

pub fn build_ref(pattern: &str, f: &AlFlags) -> Result<Regex, String> {
    let mut rb = RegexBuilder::new(&format!("\\A(?:{pattern})"));
    if let Some(n) = f.size_limit {
        rb.size_limit(n);
    }
    if let Some(n) = f.dfa_size_limit {
        rb.dfa_size_limit(n);
    }
    if let Some(n) = f.nest_limit {
        rb.nest_limit(n);
    }
    if let Some(b) = f.unicode {
        rb.unicode(b);
    }
    rb
        .octal(f.eff_octal())
        .multi_line(f.eff_multi_line())
        .dot_matches_new_line(f.eff_dot_nl())
        .case_insensitive(f.eff_ci())
        .swap_greed(f.eff_swap_greed())
        .build()
        .map_err(|e| e.to_string())
}

pub fn lex_flags_of(f: &AlFlags) -> LexFlags {
    let mut lf = DEFAULT_LEX_FLAGS;
    lf.dot_matches_new_line = Some(f.eff_dot_nl());
    lf.multi_line = Some(f.eff_multi_line());
    lf.octal = Some(f.eff_octal());
    lf.posix_escapes = Some(f.eff_posix());
    lf.allow_wholeline_comments = Some(f.eff_comments());
    lf.case_insensitive = f.case_insensitive;
    lf.swap_greed = f.swap_greed;
    lf.ignore_whitespace = f.ignore_whitespace;
    lf.size_limit = f.size_limit;
    lf.dfa_size_limit = f.dfa_size_limit;
    lf.nest_limit = f.nest_limit;
    lf.unicode = f.unicode;
    lf
}

#[derive(Debug, PartialEq, Clone)]
pub struct LexOut {
    pub lexemes: Vec<(u32, usize, usize)>,
    pub error: Option<usize>,
    pub classes: Vec<&'static str>,
}

/// Naive reference lexer: position loop, plain Vec state stack, longest non-empty match,
/// earliest rule on ties. `ids[i]` = token id of rule i (None: named rule without id).
pub fn naive_lex(al: &AL, regs: &[Regex], ids: &[Option<u32>], input: &str) -> LexOut {
    let mut out = LexOut {
        lexemes: vec![],
        error: None,
        classes: vec![],
    };
    let mut stack: Vec<usize> = vec![0];
    let mut i = 0;
    while i < input.len() {
        let top = *stack.last().unwrap();
        let mut best: Option<(usize, usize)> = None; // (len, rule)
        let mut nmatch = 0;
        let mut hidden = false;
        for (ri, r) in al.rules.iter().enumerate() {
            let active = if r.states.is_empty() {
                !al.exclusive(top)
            } else {
                r.states.contains(&top)
            };
            let len = regs[ri].find(&input[i..]).map(|m| m.end()).unwrap_or(0);
            if !active {
                if len > 0 && r.states.is_empty() {
                    hidden = true;
                }
                continue;
            }
            if len > 0 {
                nmatch += 1;
                match best {
                    None => best = Some((len, ri)),
                    Some((bl, _)) => {
                        if len > bl {
                            best = Some((len, ri));
                            out.classes.push("longer-later-rule-wins");
                        } else if len == bl {
                            out.classes.push("tie-resolved-by-order");
                        }
                    }
                }
            }
        }
        if nmatch >= 2 {
            out.classes.push("several-rules-matched");
        }
        if hidden {
            out.classes.push("exclusive-state-hides-unqualified-rule");
        }
        if input[..i].chars().last().map(|c| c.len_utf8() > 1).unwrap_or(false) && best.is_some() {
            out.classes.push("multibyte-before-match");
        }
        let Some((len, ri)) = best else {
            if top != 0 {
                out.classes.push("error-in-non-initial-state");
            }
            out.error = Some(i);
            return out;
        };
        let r = &al.rules[ri];
        if r.name.is_some() {
            match ids[ri] {
                Some(id) => out.lexemes.push((id, i, len)),
                None => {
                    out.classes.push("named-rule-without-id");
                    out.error = Some(i);
                    return out;
                }
            }
        }
        if let Some((st, op)) = &r.target {
            out.classes.push("state-operation");
            match op {
                Op::Replace => {
                    stack.clear();
                    stack.push(*st);
                }
                Op::Push => {
                    if stack.last() == Some(st) {
                        out.classes.push("push-same-state-twice");
                    }
                    stack.push(*st);
                }
                Op::Pop => {
                    if stack.len() == 1 {
                        out.classes.push("pop-on-one-element-stack");
                    }
                    stack.pop();
                    if stack.is_empty() {
                        stack.push(0);
                    }
                }
            }
        }
        i += len;
    }
    out
}

pub fn gen_inputs(ch: &mut Choices, al: &AL, n: usize) -> Vec<String> {
    let mut v = vec![];
    for _ in 0..n {
        let mut s = String::new();
        // specifications of the state-stack stratum only have one-letter rules: long inputs
        let one_letter = al.rules.iter().all(|r| matches!(r.re, crate::genr::lexspec::Re::Lit { .. }));
        let parts = if one_letter { ch.range(0, 24) } else { ch.range(0, 8) };
        for _ in 0..parts {
            match ch.weighted(&[6, 3, 1]) {
                0 => {
                    let r = ch.pick(al.rules.len());
                    sample(ch, &al.rules[r].re, &mut s);
                }
                1 => s.push(*ch.choose(&['a', 'b', 'c', '0', '1', ' ', 'é', '漢', '\n', 'A'])),
                _ => s.push(*ch.choose(&['#', '~', 'Z', '\u{8}', '!'])),
            }
        }
        v.push(s);
    }
    v
}

/// A string matched (most of the time) by the expression.
pub fn sample(ch: &mut Choices, re: &crate::genr::lexspec::Re, out: &mut String) {
    use crate::genr::lexspec::{ClassItem, Re};
    match re {
        Re::Lit { c, .. } => out.push(*c),
        Re::Esc(s) => out.push(match s.as_str() {
            "\\n" => '\n',
            "\\t" => '\t',
            "\\x61" | "\\141" | "\\w" => 'a',
            "\\d" => '0',
            "\\s" | "\\x20" => ' ',
            "\\D" => 'b',
            "\\u00e9" | "\\xE9" | "\\xe9" | "\\u00E9" | "\\U000000e9" => 'é',
            "\\u6F22" | "\\u6f22" | "\\U00006F22" => '漢',
            "\\uF900" => '\u{f900}',
            "\\x7A" => 'z',
            "\\xAB" => '\u{ab}',
            "\\uffe9" => '\u{ffe9}',
            "$" if ch.chance(1, 2) => '\n',
            _ => return,
        }),
        Re::SlashB => {
            if ch.chance(1, 2) {
                out.push('\u{8}');
            }
        }
        Re::Dot => out.push(*ch.choose(&['a', '1', 'é', '\n'])),
        Re::Class { neg, items } => {
            if *neg {
                out.push(*ch.choose(&['a', 'b', 'c', '0', '1', 'é', 'z']));
            } else {
                match ch.choose(items) {
                    ClassItem::Ch(c) | ClassItem::Esc(c) => out.push(*c),
                    ClassItem::Range(a, _) => out.push(*a),
                }
            }
        }
        Re::Cat(v) => v.iter().for_each(|r| sample(ch, r, out)),
        Re::Alt(v) => {
            let i = ch.pick(v.len());
            sample(ch, &v[i], out)
        }
        Re::Star(r) => {
            for _ in 0..ch.pick(3) {
                sample(ch, r, out)
            }
        }
        Re::Plus(r) => {
            for _ in 0..1 + ch.pick(2) {
                sample(ch, r, out)
            }
        }
        Re::Opt(r) => {
            if ch.chance(1, 2) {
                sample(ch, r, out)
            }
        }
        Re::Rep(r, a, b) => {
            let n = *a as usize + ch.pick((*b - *a) as usize + 1);
            for _ in 0..n {
                sample(ch, r, out)
            }
        }
    }
}

fn to_op(op: &Op) -> StartStateOperation {
    match op {
        Op::Replace => StartStateOperation::ReplaceStack,
        Op::Push => StartStateOperation::Push,
        Op::Pop => StartStateOperation::Pop,
    }
}

fn collect(lexer: &dyn Lexer<LT>) -> (Vec<(u32, usize, usize)>, Option<usize>, usize) {
    let mut lexemes = vec![];
    let mut err = None;
    let mut nerr = 0;
    for r in lexer.iter() {
        match r {
            Ok(l) => lexemes.push((l.tok_id(), l.span().start(), l.span().len())),
            Err(e) => {
                nerr += 1;
                if err.is_none() {
                    err = Some(e.span().start());
                }
            }
        }
    }
    (lexemes, err, nerr)
}

impl Prop for C09 {
    fn id(&self) -> &'static str {
        "C09"
    }
    fn fuzz_target(&self) -> Option<&'static str> {
        Some("fz_choices")
    }
    fn stream_len(&self, _tier: Tier) -> usize {
        500
    }
    fn cases(&self, tier: Tier) -> u32 {
        tier.pick(300_000, 5_000_000)
    }
    fn decode(&self, choices: &[u32], _tier: Tier) -> Value {
        let mut ch = Choices::new(choices);
        let al = gen_al(&mut ch, 6);
        let inputs = gen_inputs(&mut ch, &al, 6);
        let mut ids = vec![];
        for (i, r) in al.rules.iter().enumerate() {
            if r.name.is_some() && ch.chance(5, 6) {
                ids.push((i, 10 + ch.pick(40) as u32));
            }
        }
        let nextra = ch.weighted(&[3, 1, 1]);
        let extra_names = (0..nextra).map(|k| format!("ONLY_PARSER_{k}")).collect();
        // duplicate rule names cannot come from any real caller of from_rules (the parser rejects
        // them and from_rules is only meant for generated code), so they are not generated
        let dup_names = false;
        let _ = ch.chance(1, 4);
        let bare_alt = (0..al.rules.len()).map(|_| ch.chance(1, 2)).collect();
        serde_json::to_value(Case {
            bare_alt,
            al,
            inputs,
            ids,
            extra_names,
            dup_names,
        })
        .unwrap()
    }
    fn rule(&self) -> String {
        "AL: 1-6 rules with overlapping regexes (shared prefixes, classes, escapes of all kinds, alternation, repetition), 0-3 inclusive/exclusive start states, <S1,S2> prefixes, push/pop/replace targets, regex flags in a %grmtools section, top-level alternations with and without parentheses; 6 inputs each sampled from the rules' ASTs plus unmatchable characters and multi-byte text. Two construction paths: .l text through from_str, and Rule::new + from_rules (duplicate names possible). Ids through set_rule_ids (for every other case after an earlier call with a map giving every name another id) and set_rule_ids_spanned with a map that misses some lexer names and has names the lexer lacks. The look-ups get_rule / get_rule_by_name / get_rule_by_id are compared with the rule list. Oracle: naive lexer (position loop, plain Vec state stack, regex crate built from the AST): same lexemes (id,start,len), same single error position; tiling; exact missing-name sets. Evaluation = one (spec,input,path). Non-trivial: >=2 active rules matched at some position, or a state operation executed, or a multi-byte character preceded a match; distinct by hash(spec,input).".into()
    }
    fn assumptions(&self) -> Vec<String> {
        vec![
            "regex crate (and its \\A anchoring on the remaining input) is the matching oracle; zero-length matches never produce a lexeme".into(),
            "set_rule_ids returns (names in the map with no rule, rule names absent from the map) - the order every caller and the repository's tests use".into(),
        ]
    }
    fn required_classes(&self, _tier: Tier) -> Vec<&'static str> {
        vec![
            "tie-resolved-by-order",
            "longer-later-rule-wins",
            "push-same-state-twice",
            "pop-on-one-element-stack",
            "exclusive-state-hides-unqualified-rule",
            "error-in-non-initial-state",
            "named-rule-without-id",
            "multibyte-before-match",
            "path:from_rules",
            "path:from_str",
            "bare-top-level-alternation",
        ]
    }
    fn evaluate(&self, case: &Value) -> Outcome {
        let case: Case = serde_json::from_value(case.clone()).unwrap();
        let mut o = Outcome::new();
        o.evals = 1;
        let al = &case.al;
        let mut regs = vec![];
        for i in 0..al.rules.len() {
            match ref_regex(al, i, case.bare_alt.get(i).copied().unwrap_or(false)) {
                Ok(r) => regs.push(r),
                Err(e) => {
                    // the generator produced something the regex crate itself rejects
                    o.class("reference-regex-rejected");
                    o.discard(&format!("reference-regex-rejected:{}", e.lines().last().unwrap_or("")));
                    return o;
                }
            }
        }
        let mut ropts = RenderOpts::plain(al.rules.len());
        ropts.bare_alt = (0..al.rules.len()).map(|i| case.bare_alt.get(i).copied().unwrap_or(false)).collect();
        if al.rules.iter().enumerate().any(|(i, r)| matches!(r.re, crate::genr::lexspec::Re::Alt(_)) && ropts.bare_alt[i]) {
            o.class("bare-top-level-alternation");
        }
        let (src, _lay) = render(al, &ropts);
        // ---- path 1: from_str
        let mut def = match catch(|| LRNonStreamingLexerDef::<LT>::from_str(&src)) {
            Ok(Ok(d)) => d,
            Ok(Err(errs)) => {
                o.fail(
                    "wrong",
                    "C09/valid-spec-rejected",
                    format!("{:?}\n{src}", errs.iter().map(|e| format!("{e} {:?}", cfgrammar::Spanned::spans(e))).collect::<Vec<_>>()),
                );
                return o;
            }
            Err(p) => {
                o.fail("panic", format!("C09/{}", p.signature()), format!("{}\n{src}", p.detail()));
                return o;
            }
        };
        // name -> id map
        let mut map: HashMap<&str, u32> = HashMap::new();
        let mut ids: Vec<Option<u32>> = vec![None; al.rules.len()];
        for (i, id) in &case.ids {
            if let Some(n) = &al.rules[*i].name {
                map.insert(n.as_str(), *id);
                ids[*i] = Some(*id);
            }
        }
        for n in &case.extra_names {
            map.insert(n.as_str(), 99);
        }
        let exp_missing_from_lexer: BTreeSet<String> = case.extra_names.iter().cloned().collect();
        let exp_missing_from_parser: BTreeSet<String> = al
            .rules
            .iter()
            .enumerate()
            .filter(|(i, r)| r.name.is_some() && ids[*i].is_none())
            .map(|(_, r)| r.name.clone().unwrap())
            .collect();
        // every other case: an earlier synchronisation with another parser (ids for every name,
        // all different from the final ones) - the second call must leave nothing of it behind
        let prev_names: Vec<String> = al.rules.iter().filter_map(|r| r.name.clone()).collect();
        if hash64(&src) % 2 == 0 {
            let prev: HashMap<&str, u32> = prev_names.iter().enumerate().map(|(k, n)| (n.as_str(), 1000 + k as u32)).collect();
            let _ = def.set_rule_ids(&prev);
            o.class("set-rule-ids-twice");
        }
        {
            let (mfl, mfp) = def.set_rule_ids(&map);
            let mfl: BTreeSet<String> = mfl.unwrap_or_default().into_iter().map(|s| s.to_string()).collect();
            let mfp: BTreeSet<String> = mfp.unwrap_or_default().into_iter().map(|s| s.to_string()).collect();
            if mfl != exp_missing_from_lexer || mfp != exp_missing_from_parser {
                o.fail(
                    "wrong",
                    "C09/set_rule_ids/missing-sets",
                    format!("returned ({mfl:?}, {mfp:?}), expected (names without a rule {exp_missing_from_lexer:?}, rule names without an id {exp_missing_from_parser:?})\n{src}"),
                );
                return o;
            }
        }
        // the documented look-ups agree with the rule list: by index, by name (the first rule of
        // that name), by token id (the first rule with that id)
        {
            let rules: Vec<_> = def.iter_rules().collect();
            let same = |a: &Rule<u32>, b: &Rule<u32>| a.name() == b.name() && a.name_span() == b.name_span() && a.re_str() == b.re_str() && a.tok_id() == b.tok_id();
            for (i, r) in rules.iter().enumerate() {
                let by_idx = def.get_rule(i).map(|x| same(x, r)).unwrap_or(false);
                let by_name = match r.name() {
                    Some(n) => {
                        let first = rules.iter().find(|x| x.name() == Some(n)).unwrap();
                        def.get_rule_by_name(n).map(|x| same(x, first)).unwrap_or(false)
                    }
                    None => true,
                };
                let by_id = match r.tok_id() {
                    Some(id) => {
                        let first = rules.iter().find(|x| x.tok_id() == Some(id)).unwrap();
                        match catch(|| same(def.get_rule_by_id(id), first)) {
                            Ok(b) => b,
                            Err(_) => false,
                        }
                    }
                    None => true,
                };
                if !(by_idx && by_name && by_id) {
                    o.fail(
                        "wrong",
                        "C09/rule-lookup",
                        format!("rule {i} ({:?}, id {:?}): get_rule agrees: {by_idx}, get_rule_by_name agrees: {by_name}, get_rule_by_id agrees: {by_id}\n{src}", r.name(), r.tok_id()),
                    );
                    return o;
                }
            }
            if def.get_rule(rules.len()).is_some() || def.get_rule_by_name("NO_SUCH_RULE_NAME").is_some() {
                o.fail("wrong", "C09/rule-lookup", format!("a rule is returned for an index past the end or for a name no rule has\n{src}"));
                return o;
            }
        }
        // the spanned variant reports the same names, each with the span of a rule of that name
        // (in the .l text the span covers exactly the name)
        {
            let mut d = def.clone();
            let (mfl, mfp) = d.set_rule_ids_spanned(&map);
            let mfl: BTreeSet<String> = mfl.unwrap_or_default().into_iter().map(|s| s.to_string()).collect();
            let mfp: BTreeSet<(String, usize, usize)> = mfp.unwrap_or_default().into_iter().map(|(s, sp)| (s.to_string(), sp.start(), sp.end())).collect();
            let mut exp: BTreeSet<(String, usize, usize)> = BTreeSet::new();
            for (i, r) in def.iter_rules().enumerate() {
                if i < al.rules.len() && al.rules[i].name.is_some() && ids[i].is_none() {
                    let sp = r.name_span();
                    exp.insert((al.rules[i].name.clone().unwrap(), sp.start(), sp.end()));
                }
            }
            let texts_ok = mfp.iter().all(|(n, st, en)| src.get(*st..*en) == Some(n.as_str()));
            if mfl != exp_missing_from_lexer || mfp != exp || !texts_ok {
                o.fail(
                    "wrong",
                    "C09/set_rule_ids_spanned/missing-sets",
                    format!("returned ({mfl:?}, {mfp:?}), expected (names without a rule {exp_missing_from_lexer:?}, rule names without an id with the spans of their rules {exp:?}); span texts match: {texts_ok}\n{src}"),
                );
                return o;
            }
            if !mfp.is_empty() {
                o.class("spanned-missing-from-parser");
            }
        }
        // ---- path 2: from_rules
        let lf = lex_flags_of(&al.flags);
        let mut rules2 = vec![];
        let mut ok2 = true;
        for (i, r) in al.rules.iter().enumerate() {
            let name = if case.dup_names && i > 0 && r.name.is_some() && al.rules[0].name.is_some() && i == 1 {
                al.rules[0].name.clone()
            } else {
                r.name.clone()
            };
            match Rule::<u32>::new(
                lrlex::unstable_api::InternalPublicApi,
                Some(i as u32),
                name,
                Span::new(0, 0),
                match &r.re {
                    crate::genr::lexspec::Re::Alt(v) if ropts.bare_alt[i] => v.iter().map(|x| x.reference(&al.flags)).collect::<Vec<_>>().join("|"),
                    _ => r.re.reference(&al.flags),
                },
                r.states.clone(),
                r.target.as_ref().map(|(s, op)| (*s, to_op(op))),
                &lf,
            ) {
                Ok(x) => rules2.push(x),
                Err(_) => ok2 = false,
            }
        }
        let mut def2 = if ok2 {
            let mut sts = vec![StartState::new(0, "INITIAL", false, Span::new(0, 0))];
            for (k, (n, e)) in al.states.iter().enumerate() {
                sts.push(StartState::new(k + 1, n, *e, Span::new(0, 0)));
            }
            // (states are found by id, not by position: every other case lists them in another order)
            if hash64(&src) % 2 == 1 && sts.len() > 1 {
                sts.rotate_left(1);
                o.class("from_rules:states-not-in-id-order");
            }
            Some(LRNonStreamingLexerDef::<LT>::from_rules(sts, rules2))
        } else {
            None
        };
        let mut ids2 = ids.clone();
        if let Some(d2) = def2.as_mut() {
            // with a duplicated name rule 1 carries rule 0's name and therefore its id
            let dup = case.dup_names && al.rules.len() > 1 && al.rules[1].name.is_some() && al.rules[0].name.is_some();
            let mut names2: Vec<Option<String>> = al.rules.iter().map(|r| r.name.clone()).collect();
            if dup {
                names2[1] = names2[0].clone();
                ids2[1] = ids2[0];
                o.class("duplicate-names");
            }
            let (mfl, mfp) = d2.set_rule_ids(&map);
            let mfl: BTreeSet<String> = mfl.unwrap_or_default().into_iter().map(|s| s.to_string()).collect();
            let mfp: BTreeSet<String> = mfp.unwrap_or_default().into_iter().map(|s| s.to_string()).collect();
            let exp_fp: BTreeSet<String> = names2
                .iter()
                .enumerate()
                .filter(|(i, n)| n.is_some() && ids2[*i].is_none())
                .map(|(_, n)| n.clone().unwrap())
                .collect();
            let mut exp_fl: BTreeSet<String> = case.extra_names.iter().cloned().collect();
            if dup {
                // the name of rule 1 no longer exists in the lexer: if the map has it, it is missing
                if let Some(n1) = &al.rules[1].name {
                    if map.contains_key(n1.as_str()) && !names2.iter().any(|n| n.as_deref() == Some(n1.as_str())) {
                        exp_fl.insert(n1.clone());
                    }
                }
            }
            if mfl != exp_fl || mfp != exp_fp {
                o.fail(
                    "wrong",
                    "C09/set_rule_ids/missing-sets/from_rules",
                    format!("returned ({mfl:?}, {mfp:?}), expected ({exp_fl:?}, {exp_fp:?}); rule names {names2:?}, map {map:?}"),
                );
                return o;
            }
        }
        // ---- lexing
        o.evals = 0;
        let key = serde_json::to_string(al).unwrap();
        for input in &case.inputs {
            for path in 0..2 {
                let (exp, got) = if path == 0 {
                    o.class("path:from_str");
                    let exp = naive_lex(al, &regs, &ids, input);
                    let got = catch(|| collect(&def.lexer(input)));
                    (exp, got)
                } else {
                    let Some(d2) = def2.as_ref() else { continue };
                    o.class("path:from_rules");
                    let exp = naive_lex(al, &regs, &ids2, input);
                    let got = catch(|| collect(&d2.lexer(input)));
                    (exp, got)
                };
                o.evals += 1;
                for c in &exp.classes {
                    o.class(c);
                }
                if exp.classes.iter().any(|c| *c == "several-rules-matched" || *c == "state-operation" || *c == "multibyte-before-match") {
                    o.nontrivial.push(hash64(&format!("{key}{input}")));
                    if o.sample.is_none() {
                        o.sample = Some(serde_json::json!({"spec": src, "input": input, "lexemes": format!("{:?}", exp.lexemes), "error": exp.error}));
                    }
                }
                match got {
                    Err(p) => {
                        o.fail("panic", format!("C09/{}", p.signature()), format!("input {input:?}: {}\n{src}", p.detail()));
                        return o;
                    }
                    Ok((lexemes, err, nerr)) => {
                        if nerr > 1 {
                            o.fail("wrong", "C09/several-errors", format!("input {input:?}: {nerr} lexing errors\n{src}"));
                            return o;
                        }
                        if lexemes != exp.lexemes || err != exp.error {
                            o.fail(
                                "wrong",
                                if path == 0 { "C09/lexemes-differ" } else { "C09/lexemes-differ/from_rules" },
                                format!("input {input:?}: got lexemes {lexemes:?} error {err:?}; expected {:?} error {:?} (id,start,len)\n{src}", exp.lexemes, exp.error),
                            );
                            return o;
                        }
                        // independent tiling check: contiguous, in order, up to end or error
                        let mut pos = 0;
                        for (_, s, l) in &lexemes {
                            if *s < pos || *l == 0 {
                                o.fail("wrong", "C09/tiling", format!("input {input:?}: lexemes overlap or are empty: {lexemes:?}"));
                                return o;
                            }
                            pos = s + l;
                        }
                        let end = err.unwrap_or(input.len());
                        if pos > end {
                            o.fail("wrong", "C09/tiling", format!("input {input:?}: lexemes run past {end}: {lexemes:?}"));
                            return o;
                        }
                    }
                }
            }
        }
        if o.evals == 0 {
            o.evals = 1;
        }
        o
    }
}

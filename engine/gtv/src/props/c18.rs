//! C18 - an incremental compile-time build always ends in the state a clean build would.

use crate::ctstep::{CtSpec, run_ctstep};
use crate::exec::{Outcome, Prop, Tier, hash64};
use crate::genr::choices::Choices;
use filetime::{FileTime, set_file_mtime};
use serde::{Deserialize, Serialize};
use serde_json::Value;
use std::path::{Path, PathBuf};
use std::sync::atomic::{AtomicU64, Ordering};

pub struct C18;

#[derive(Serialize, Deserialize, Debug, Clone, PartialEq)]
pub enum Op {
    EditGrammar(usize),
    EditLexer(usize),
    Touch,
    SetOption(String, usize),
    BreakGrammar(usize),
    BreakLexer,
    /// the lexer gets a %grmtools key nothing reads: refused late, after everything else is done
    BreakLexerLate,
    Build,
    /// a source file that cannot be read as text: 0/1 = the grammar (not UTF-8 / deleted),
    /// 2/3 = the lexer (not UTF-8 / deleted)
    Unreadable(usize),
    /// the grammar is edited and its file time is exactly that of the parser module generated
    /// before (coarse timestamps, a tool that restores times, an edit within one clock tick)
    EditGrammarAtOutputTime(usize),
}

#[derive(Serialize, Deserialize, Debug, Clone)]
pub struct Case {
    pub ops: Vec<Op>,
    /// replay of the known finding only: report the tolerated situation
    #[serde(default)]
    pub probe_one_call_stale_parser: bool,
    /// replay of the known finding only: report the tolerated situation
    #[serde(default)]
    pub probe_test_files_not_rerun: bool,
}

const GRAMMARS: &[&str] = &[
    "%start E\n%%\nE: E '+' T | T;\nT: 'INT';\n",
    "%start E\n%%\nE: E '+' T | E '-' T | T;\nT: 'INT';\n",
    "%start E\n%left '+'\n%%\nE: E '+' E | 'INT';\n",
    "%start S\n%%\nS: 'INT' S | ;\n",
    "%start E\n%%\nE: E '+' T | T;\nT: 'INT' | '(' E ')';\n",
    "%start E\n%avoid_insert 'INT'\n%%\nE: E '+' T | T ;\nT: 'INT' ;\n// trailing comment\n",
];
/// Variant k of the grammar; variant 6 declares 260 tokens, which u8 storage refuses (by panic);
/// variant 7 asks for the files `*.input` next to the grammar to be parsed at build time (one-call
/// flow only; `a.input` holds "1 + 2\n", which lexer variant 2 cannot lex).
fn grammar_text(k: usize) -> String {
    if k < GRAMMARS.len() {
        return GRAMMARS[k].to_string();
    }
    if k == 7 {
        return format!("%grmtools{{test_files: [\"*.input\"]}}\n{}", GRAMMARS[0]);
    }
    if k == 8 {
        // token names that read like comment delimiters (they end up in the module's cache comment)
        return "%start E\n%%\nE: E '+' T | T;\nT: 'INT' | \"/*\" E \"*/\";\n".to_string();
    }
    let mut s = String::from("%start E\n%token");
    for i in 0..260 {
        s.push_str(&format!(" K{i}"));
    }
    s.push_str("\n%%\nE: E '+' T | T;\nT: 'INT';\n");
    s
}
const NGRAMMARS: usize = 9;

const BROKEN_GRAMMARS: &[&str] = &[
    "%start E\n%%\nE: E '+' T | T\nT: 'INT';\n",        // missing ';'
    "%start E\n%%\nE: E '+' Undefined | 'INT';\n",      // unknown rule
    "%grmtools{yacckind: [}\n%start E\n%%\nE: 'INT';\n", // broken header
    "%start E\n%%\nE: E '+' E | 'INT';\n",              // conflicts (error_on_conflicts default)
];
const LEXERS: &[&str] = &[
    "%%\n[0-9]+ 'INT'\n\\+ '+'\n- '-'\n\\( '('\n\\) ')'\n[ \\t\\n]+ ;\n",
    "%%\n[0-9]+ \"INT\"\n\\+ \"+\"\n- \"-\"\n\\( \"(\"\n\\) \")\"\n[ \\t\\n\\r]+ ;\n",
    "%%\n[0-9a-f]+ 'INT'\n\\+ '+'\n- '-'\n\\( '('\n\\) ')'\n[ ]+ ;\n",
    "%grmtools{case_insensitive}\n%%\n[0-9]+ 'INT'\n\\+ '+'\n- '-'\n\\( '('\n\\) ')'\n[ \\t\\n]+ ;\n",
    // lacks '-' and the parentheses some grammars use
    "%%\n[0-9]+ 'INT'\n\\+ '+'\n[ \\t\\n]+ ;\n",
    // lacks the parentheses, has a token no grammar uses
    "%%\n[0-9]+ 'INT'\n\\+ '+'\n- '-'\n\\* 'STAR'\n[ \\t\\n]+ ;\n",
    // multi-byte characters end up in the generated module
    "%%\n[0-9]+ 'INT'\n\\+ '+'\n- '-'\n\\( '('\n\\) ')'\n[ \\t\\n\u{e9}\u{6f22}]+ ;\n",
    // knows the comment-delimiter tokens of grammar variant 8
    "%%\n[0-9]+ 'INT'\n\\+ '+'\n- '-'\n\\( '('\n\\) ')'\n/\\* \"/*\"\n\\*/ \"*/\"\n[ \\t\\n]+ ;\n",
];
const BROKEN_LEXER: &str = "%%\n[0-9+ 'INT'\n";
/// a lexer that is only refused at the end of its build (a key of its %grmtools section that
/// nothing reads) - in the one-call flow after the parser has been built
const LEXER_UNUSED_KEY: &str = "%grmtools{case_insensitve}\n%%\n[0-9]+ 'INT'\n\\+ '+'\n- '-'\n\\( '('\n\\) ')'\n[ \\t\\n]+ ;\n";

const OPTIONS: &[(&str, usize)] = &[
    ("parser_mod_name", 3),
    ("lexer_mod_name", 2),
    ("visibility", 7),
    ("edition", 3),
    ("recoverer", 3),
    ("yacckind", 3),
    ("serialisation", 3),
    ("error_on_conflicts", 2),
    ("warnings_are_errors", 2),
    ("show_warnings", 2),
    ("lex_case_insensitive", 3),
    ("lex_dot_matches_new_line", 3),
    ("strict_terms_in_lexer", 2),
    ("strict_tokens_in_parser", 2),
    ("combined", 2),
    ("grammar_dir", 2),
    ("grammar_symlink", 2),
    ("storaget", 3),
];

#[derive(Clone, PartialEq, Debug)]
struct Settings {
    vals: Vec<usize>,
}

impl Settings {
    fn new() -> Self {
        Settings { vals: vec![0; OPTIONS.len()] }
    }
    fn get(&self, name: &str) -> usize {
        self.vals[OPTIONS.iter().position(|(n, _)| *n == name).unwrap()]
    }
    fn apply(&self, spec: &mut CtSpec) {
        spec.parser_mod_name = match self.get("parser_mod_name") {
            0 => None,
            1 => Some("alpha_y".into()),
            _ => Some("beta_y".into()),
        };
        spec.lexer_mod_name = match self.get("lexer_mod_name") {
            0 => None,
            _ => Some("alpha_l".into()),
        };
        spec.visibility = match self.get("visibility") {
            0 => None,
            1 => Some("Public".into()),
            2 => Some("PublicCrate".into()),
            3 => Some("PublicIn:crate::a".into()),
            4 => Some("PublicIn:crate::b".into()),
            5 => Some("PublicSuper".into()),
            _ => Some("PublicSelf".into()),
        };
        spec.edition = match self.get("edition") {
            0 => None,
            1 => Some(2018),
            _ => Some(2015),
        };
        spec.recoverer = match self.get("recoverer") {
            0 => None,
            1 => Some("None".into()),
            _ => Some("CPCTPlus".into()),
        };
        // yacckind always Generic-compatible sources; vary how it is given
        spec.yacckind = match self.get("yacckind") {
            0 => Some("Generic".into()),
            1 => Some("NoAction".into()),
            _ => Some("Generic".into()),
        };
        spec.serialisation = match self.get("serialisation") {
            0 => None,
            1 => Some("Fixed".into()),
            _ => Some("Variable".into()),
        };
        spec.error_on_conflicts = match self.get("error_on_conflicts") {
            0 => None,
            _ => Some(false),
        };
        spec.warnings_are_errors = Some(self.get("warnings_are_errors") == 1);
        spec.show_warnings = Some(self.get("show_warnings") == 1);
        spec.lex_case_insensitive = match self.get("lex_case_insensitive") {
            0 => None,
            1 => Some(true),
            _ => Some(false),
        };
        spec.lex_dot_matches_new_line = match self.get("lex_dot_matches_new_line") {
            0 => None,
            1 => Some(false),
            _ => Some(true),
        };
        spec.strict_terms_in_lexer = Some(self.get("strict_terms_in_lexer") == 1);
        spec.strict_tokens_in_parser = Some(self.get("strict_tokens_in_parser") == 1);
        spec.combined = Some(self.get("combined") == 1);
        spec.storaget = match self.get("storaget") {
            0 => None,
            1 => Some("u16".into()),
            _ => Some("u8".into()),
        };
    }
    /// settings that are recorded in the parser's cache or change the parser module
    fn parser_relevant(&self) -> Vec<usize> {
        ["parser_mod_name", "visibility", "edition", "recoverer", "yacckind", "serialisation", "error_on_conflicts", "warnings_are_errors", "show_warnings", "storaget"]
            .iter()
            .map(|n| {
                let v = self.get(n);
                // value 2 of these options spells out the default that value 0 leaves implicit:
                // the effective configuration is unchanged
                if ["yacckind", "recoverer", "serialisation"].contains(n) && v == 2 { 0 } else { v }
            })
            .collect()
    }
}

fn mask(s: &str) -> String {
    s.lines().filter(|l| !l.contains("build time") && !l.contains("BUILD_TIME")).collect::<Vec<_>>().join("\n")
}

/// The CACHE INFORMATION comment records BUILD_TIME on the same line as everything else; remove
/// just that assignment.
fn mask_parser(s: &str) -> String {
    let mut out = String::new();
    for l in s.lines() {
        if let Some(i) = l.find("BUILD_TIME = ") {
            // ... BUILD_TIME = \"....\" DERIVED_MOD_NAME ...
            let rest = &l[i..];
            let end = rest.find("DERIVED_MOD_NAME").unwrap_or(rest.len());
            out.push_str(&l[..i]);
            out.push_str(&rest[end..]);
        } else {
            out.push_str(l);
        }
        out.push('\n');
    }
    out
}

static UNIQ: AtomicU64 = AtomicU64::new(0);

fn set_mtime(p: &Path, t: i64) {
    let _ = set_file_mtime(p, FileTime::from_unix_time(1_700_000_000 + t, 0));
}

impl Prop for C18 {
    fn id(&self) -> &'static str {
        "C18"
    }
    fn stream_len(&self, _tier: Tier) -> usize {
        60
    }
    fn cases(&self, tier: Tier) -> u32 {
        tier.pick(12_000, 150_000)
    }
    fn watchdog_ms(&self) -> u64 {
        120_000
    }
    fn max_shrink_iters(&self) -> u32 {
        120
    }
    fn decode(&self, choices: &[u32], _tier: Tier) -> Value {
        let mut ch = Choices::new(choices);
        let n = ch.range(1, 8);
        let mut ops = vec![];
        // options changed so far: a later change often goes back to one of them (to its default
        // or to another value), so that "set, build, set back, build" is common
        let mut touched_opts: Vec<usize> = vec![];
        for _ in 0..n {
            let op = match ch.weighted(&[4, 2, 1, 4, 2, 2, 3, 1, 1]) {
                0 => Op::EditGrammar(ch.pick(NGRAMMARS)),
                1 => Op::EditLexer(ch.pick(LEXERS.len())),
                2 => Op::Touch,
                3 => {
                    if !touched_opts.is_empty() && ch.chance(1, 3) {
                        let k = touched_opts[ch.pick(touched_opts.len())];
                        let v = if ch.chance(1, 2) { 0 } else { ch.pick(OPTIONS[k].1) };
                        Op::SetOption(OPTIONS[k].0.to_string(), v)
                    } else {
                        let k = ch.pick(OPTIONS.len());
                        touched_opts.push(k);
                        Op::SetOption(OPTIONS[k].0.to_string(), ch.pick(OPTIONS[k].1))
                    }
                }
                4 => Op::BreakGrammar(ch.pick(BROKEN_GRAMMARS.len())),
                5 => {
                    if ch.chance(1, 2) {
                        Op::BreakLexer
                    } else {
                        Op::BreakLexerLate
                    }
                }
                6 => Op::Build,
                7 => Op::EditGrammarAtOutputTime(ch.pick(NGRAMMARS)),
                _ => Op::Unreadable(ch.pick(4)),
            };
            ops.push(op);
            if ch.chance(1, 2) {
                ops.push(Op::Build);
            }
        }
        if ops.last() != Some(&Op::Build) {
            ops.push(Op::Build);
        }
        serde_json::to_value(Case { ops, probe_one_call_stale_parser: false, probe_test_files_not_rerun: false }).unwrap()
    }
    fn rule(&self) -> String {
        "Histories of 1-8 operations (each possibly followed by Build, always ending in Build) over {EditGrammar(9 variants, one whose token names read like comment delimiters, one with 260 tokens that u8 storage refuses by panic, one with %grmtools{test_files} and a test input next to the grammar), EditGrammarAtOutputTime (an edit whose file time equals that of the parser module generated before), EditLexer(8 variants, two lacking tokens some grammars use, one with multi-byte characters), Touch, SetOption(18 builder options incl. mod names, visibility (all variants, pub(in ..) with two different paths), edition, recoverer, yacckind, serialisation format, error_on_conflicts, warnings flags, lexer flags, strictness about tokens missing from the lexer / from the parser, the flow: two builders in turn or the one-call CTLexerBuilder::lrpar_config, grammar_path switched between two files of the same leaf name in different directories, grammar_path naming the file through a symbolic link, and the storage type u32/u16/u8 of the builders' lexer types), BreakGrammar(4 kinds: syntax error, unknown rule, broken %grmtools section, unexpected conflicts), BreakLexer (a syntax error, or a %grmtools key nothing reads, which is only refused at the end of the lexer's build), Unreadable (the grammar or the lexer file is not UTF-8, or is deleted), Build}. Every Build runs the real CTParserBuilder/CTLexerBuilder in a process of its own; file times come from a logical clock. Oracle after every Build: successful => parser and lexer modules byte-identical (timestamp masked) to a clean build of the same sources/settings into an empty directory; nothing changed since the last successful build => regenerated()==false and files untouched (same bytes, same file times); grammar text or a parser-relevant option changed => regenerated()==true; failed => no generated file from the earlier sources left at the output path. Evaluation = one Build step. Non-trivial: a change between two builds or a failing build after a successful one; distinct by hash(history).".into()
    }
    fn assumptions(&self) -> Vec<String> {
        vec!["a Touch (same bytes, newer time) may or may not regenerate".into()]
    }
    fn required_classes(&self, _tier: Tier) -> Vec<&'static str> {
        vec!["build-ok", "build-failed", "unchanged-rebuild", "change-between-builds", "fail-after-success", "option-change", "grammar-edited-at-output-time", "source-unreadable", "lexer-refused-late"]
    }
    fn evaluate(&self, case: &Value) -> Outcome {
        let case: Case = serde_json::from_value(case.clone()).unwrap();
        let mut o = Outcome::new();
        let root = std::env::var("GTV_ROOT").unwrap_or_else(|_| "/verif".into());
        let dir = PathBuf::from(root).join("work").join("c18").join(format!("{}-{}", std::process::id(), UNIQ.fetch_add(1, Ordering::SeqCst)));
        let _ = std::fs::remove_dir_all(&dir);
        std::fs::create_dir_all(dir.join("out")).unwrap();
        // two grammar files with the same leaf name: the builder's grammar_path can be switched
        // between them (the "grammar_dir" setting); edits go to the selected one
        std::fs::create_dir_all(dir.join("a")).unwrap();
        std::fs::create_dir_all(dir.join("b")).unwrap();
        let gps = [dir.join("a").join("calc.y"), dir.join("b").join("calc.y")];
        // ... and each can also be named through a symbolic link next to it
        let gps_ln = [dir.join("a").join("calc_ln.y"), dir.join("b").join("calc_ln.y")];
        let mut gtexts = [GRAMMARS[0].to_string(), GRAMMARS[2].to_string()];
        let mut gdir = 0usize;
        let lp = dir.join("calc.l");
        let po = dir.join("out").join("calc.y.rs");
        let lo = dir.join("out").join("calc.l.rs");
        let mut clock: i64 = 0;
        let mut gtext = gtexts[0].clone();
        let mut ltext = LEXERS[0].to_string();
        let mut settings = Settings::new();
        for k in 0..2 {
            std::fs::write(gps[k].parent().unwrap().join("a.input"), "1 + 2\n").unwrap();
            std::fs::write(&gps[k], &gtexts[k]).unwrap();
            set_mtime(&gps[k], clock);
            #[cfg(unix)]
            {
                let _ = std::os::unix::fs::symlink("calc.y", &gps_ln[k]);
                let t = FileTime::from_unix_time(1_700_000_000 + clock, 0);
                let _ = filetime::set_symlink_file_times(&gps_ln[k], t, t);
            }
        }
        std::fs::write(&lp, &ltext).unwrap();
        set_mtime(&lp, clock);
        // state at the last successful build
        let mut last_ok: Option<(String, String, Settings)> = None;
        let mut had_success = false;
        let mut touched = false;
        let mut nontrivial = false;
        let cleanup = |d: &Path| {
            let _ = std::fs::remove_dir_all(d);
        };
        for (step, op) in case.ops.iter().enumerate() {
            clock += 10;
            match op {
                Op::EditGrammar(k) => {
                    gtext = grammar_text(*k);
                    gtexts[gdir] = gtext.clone();
                    std::fs::write(&gps[gdir], &gtext).unwrap();
                    set_mtime(&gps[gdir], clock);
                    // rewriting the same bytes is a Touch
                    touched = true;
                }
                Op::EditGrammarAtOutputTime(k) => {
                    gtext = grammar_text(*k);
                    gtexts[gdir] = gtext.clone();
                    std::fs::write(&gps[gdir], &gtext).unwrap();
                    match std::fs::metadata(&po).ok().map(|m| FileTime::from_last_modification_time(&m)) {
                        Some(t) => {
                            let _ = set_file_mtime(&gps[gdir], t);
                            o.class("grammar-edited-at-output-time");
                        }
                        None => set_mtime(&gps[gdir], clock),
                    }
                    touched = true;
                }
                Op::Unreadable(k) => {
                    // the "text" of such a file is a marker no real source equals
                    if *k < 2 {
                        gtext = format!("<unreadable grammar {k}>");
                        gtexts[gdir] = gtext.clone();
                        if *k == 0 {
                            std::fs::write(&gps[gdir], [0xffu8, 0xfe, b'%', b'%', b'\n']).unwrap();
                            set_mtime(&gps[gdir], clock);
                        } else {
                            let _ = std::fs::remove_file(&gps[gdir]);
                        }
                        touched = true;
                    } else {
                        ltext = format!("<unreadable lexer {k}>");
                        if *k == 2 {
                            std::fs::write(&lp, [0xffu8, 0xfe, b'%', b'%', b'\n']).unwrap();
                            set_mtime(&lp, clock);
                        } else {
                            let _ = std::fs::remove_file(&lp);
                        }
                    }
                    o.class("source-unreadable");
                }
                Op::BreakGrammar(k) => {
                    gtext = BROKEN_GRAMMARS[*k].to_string();
                    gtexts[gdir] = gtext.clone();
                    std::fs::write(&gps[gdir], &gtext).unwrap();
                    set_mtime(&gps[gdir], clock);
                    touched = true;
                }
                Op::EditLexer(k) => {
                    ltext = LEXERS[*k].to_string();
                    std::fs::write(&lp, &ltext).unwrap();
                    set_mtime(&lp, clock);
                }
                Op::BreakLexerLate => {
                    ltext = LEXER_UNUSED_KEY.to_string();
                    std::fs::write(&lp, &ltext).unwrap();
                    set_mtime(&lp, clock);
                    o.class("lexer-refused-late");
                }
                Op::BreakLexer => {
                    ltext = BROKEN_LEXER.to_string();
                    std::fs::write(&lp, &ltext).unwrap();
                    set_mtime(&lp, clock);
                }
                Op::Touch => {
                    set_mtime(&gps[gdir], clock);
                    touched = true;
                }
                Op::SetOption(name, v) => {
                    let i = OPTIONS.iter().position(|(n, _)| n == name).unwrap();
                    settings.vals[i] = *v;
                    o.class("option-change");
                    if name == "grammar_dir" && *v != gdir {
                        // the other file becomes the grammar: its text and its (old) file time
                        gdir = *v;
                        gtext = gtexts[gdir].clone();
                        o.class("grammar-path-switched");
                    }
                }
                Op::Build => {
                    o.evals += 1;
                    let mut spec = CtSpec {
                        grammar_path: if settings.get("grammar_symlink") == 1 && gps_ln[gdir].exists() { &gps_ln[gdir] } else { &gps[gdir] }.to_string_lossy().to_string(),
                        lexer_path: lp.to_string_lossy().to_string(),
                        parser_out: po.to_string_lossy().to_string(),
                        lexer_out: lo.to_string_lossy().to_string(),
                        ..CtSpec::default()
                    };
                    settings.apply(&mut spec);
                    let before_p = std::fs::read(&po).ok();
                    let before_l = std::fs::read(&lo).ok();
                    let mtime_of = |p: &Path| std::fs::metadata(p).ok().map(|m| FileTime::from_last_modification_time(&m));
                    let (mt_p, mt_l) = (mtime_of(&po), mtime_of(&lo));
                    let r = match run_ctstep(&spec) {
                        Ok(r) => r,
                        Err(e) => {
                            o.fail("harness", "C18/harness", e);
                            cleanup(&dir);
                            return o;
                        }
                    };
                    let ctx = |m: &str| format!("{m}; step {step} of history {:?}\ngrammar:\n{gtext}\nlexer:\n{ltext}\nsettings {:?}\nresult {:?}", case.ops, settings.vals, r);
                    let ok = r.parser_ok && r.lexer_ok && r.panicked.is_none();
                    let unchanged = last_ok.as_ref().map(|(g, l, s)| *g == gtext && *l == ltext && *s == settings).unwrap_or(false);
                    if ok {
                        o.class("build-ok");
                        // clean build of the same sources and settings into an empty directory
                        let cdir = dir.join(format!("clean{step}"));
                        std::fs::create_dir_all(&cdir).unwrap();
                        let mut cspec = spec.clone();
                        cspec.parser_out = cdir.join("calc.y.rs").to_string_lossy().to_string();
                        cspec.lexer_out = cdir.join("calc.l.rs").to_string_lossy().to_string();
                        let cr = match run_ctstep(&cspec) {
                            Ok(r) => r,
                            Err(e) => {
                                o.fail("harness", "C18/harness", e);
                                cleanup(&dir);
                                return o;
                            }
                        };
                        if !(cr.parser_ok && cr.lexer_ok) {
                            // a grammar with test_files whose parser module is served from the
                            // cache: the test files are not parsed again although the lexer (or the
                            // files) changed (known finding, see DESIGN.md)
                            // (the same early return also skips the report of header keys nobody
                            // read: after switching from the one-call flow to the two builders the
                            // cached parser build succeeds although a clean one rejects the key)
                            let test_files_skipped = gtext.contains("test_files")
                                && r.regenerated != Some(true)
                                && ((r.combined && cr.lexer_error.as_deref().map(|e| e.contains("While parsing")).unwrap_or(false))
                                    || (!r.combined && cr.parser_error.as_deref().map(|e| e.contains("Unused keys in header: test_files")).unwrap_or(false)));
                            if test_files_skipped && !case.probe_test_files_not_rerun {
                                o.class("known:test-files-not-rerun-on-cached-parser");
                                let _ = std::fs::remove_dir_all(&cdir);
                                last_ok = None;
                                clock += 10;
                                if po.exists() && mtime_of(&po) != mt_p {
                                    set_mtime(&po, clock);
                                }
                                if lo.exists() && mtime_of(&lo) != mt_l {
                                    set_mtime(&lo, clock);
                                }
                                continue;
                            }
                            o.fail(
                                "wrong",
                                if test_files_skipped { "C18/incremental-ok-clean-fails/test-files-not-rerun" } else { "C18/incremental-ok-clean-fails" },
                                ctx(&format!("the incremental build succeeds but a clean build of the same sources fails: {:?}", cr)),
                            );
                            cleanup(&dir);
                            return o;
                        }
                        let inc_p = std::fs::read_to_string(&po).unwrap_or_default();
                        let inc_l = std::fs::read_to_string(&lo).unwrap_or_default();
                        let cl_p = std::fs::read_to_string(&cspec.parser_out).unwrap_or_default();
                        let cl_l = std::fs::read_to_string(&cspec.lexer_out).unwrap_or_default();
                        if mask_parser(&inc_p) != mask_parser(&cl_p) {
                            o.fail("wrong", "C18/stale-parser-module", ctx("the parser module differs from what a clean build produces"));
                            cleanup(&dir);
                            return o;
                        }
                        if mask(&inc_l) != mask(&cl_l) {
                            o.fail("wrong", "C18/stale-lexer-module", ctx("the lexer module differs from what a clean build produces"));
                            cleanup(&dir);
                            return o;
                        }
                        let _ = std::fs::remove_dir_all(&cdir);
                        if unchanged && !touched {
                            o.class("unchanged-rebuild");
                            if !r.combined && r.regenerated != Some(false) {
                                o.fail("wrong", "C18/regenerated-although-unchanged", ctx("nothing changed since the last successful build but regenerated() is true"));
                                cleanup(&dir);
                                return o;
                            }
                            if std::fs::read(&po).ok() != before_p || std::fs::read(&lo).ok() != before_l {
                                o.fail("wrong", "C18/files-rewritten-although-unchanged", ctx("generated files changed although nothing changed"));
                                cleanup(&dir);
                                return o;
                            }
                            // not regenerated also means not written again with the same bytes (a
                            // new file time makes rustc compile the including crate again)
                            if mtime_of(&po) != mt_p || mtime_of(&lo) != mt_l {
                                o.fail(
                                    "wrong",
                                    "C18/files-rewritten-although-unchanged/same-bytes",
                                    ctx(&format!("a generated file was written again (new file time) although nothing changed: parser {}, lexer {}", mtime_of(&po) != mt_p, mtime_of(&lo) != mt_l)),
                                );
                                cleanup(&dir);
                                return o;
                            }
                        }
                        if let Some((g, _l, s)) = &last_ok {
                            if *g != gtext || s.parser_relevant() != settings.parser_relevant() {
                                o.class("change-between-builds");
                                nontrivial = true;
                                if !r.combined && r.regenerated != Some(true) {
                                    o.fail("wrong", "C18/not-regenerated-after-change", ctx("the grammar or a recorded option changed but regenerated() is false"));
                                    cleanup(&dir);
                                    return o;
                                }
                            } else if *_l != ltext {
                                o.class("change-between-builds");
                                nontrivial = true;
                            }
                        }
                        last_ok = Some((gtext.clone(), ltext.clone(), settings.clone()));
                        had_success = true;
                        touched = false;
                    } else {
                        o.class("build-failed");
                        if had_success {
                            o.class("fail-after-success");
                            nontrivial = true;
                        }
                        if let Some(p) = &r.panicked {
                            // CTLexerBuilder panics (no message) on missing tokens with
                            // warnings_are_errors; a panic is a failed build like any other here
                            let _ = p;
                            o.class("build-panicked");
                        }
                        if r.combined {
                            o.class("combined-build-failed");
                            if lo.exists() && std::fs::read(&lo).ok() == before_l && before_l.is_some() {
                                o.fail("wrong", "C18/stale-lexer-after-failed-build", ctx("the one-call build failed but the previous lexer module is still at the output path"));
                                cleanup(&dir);
                                return o;
                            }
                            if po.exists() {
                                // what a clean build of the parser half gives: nothing (then no
                                // module may be here) or the module that must be here
                                let cdir = dir.join(format!("pclean{step}"));
                                std::fs::create_dir_all(&cdir).unwrap();
                                let mut cspec = spec.clone();
                                // (a grammar with test_files only builds in the one-call flow:
                                // nothing else reads that key)
                                cspec.combined = Some(gtext.contains("test_files"));
                                cspec.strict_terms_in_lexer = Some(false);
                                cspec.strict_tokens_in_parser = Some(false);
                                cspec.parser_out = cdir.join("calc.y.rs").to_string_lossy().to_string();
                                cspec.lexer_out = cdir.join("calc.l.rs").to_string_lossy().to_string();
                                let cr = run_ctstep(&cspec);
                                let clean_p = std::fs::read_to_string(&cspec.parser_out).ok();
                                let _ = std::fs::remove_dir_all(&cdir);
                                let cr = match cr {
                                    Ok(cr) => cr,
                                    Err(e) => {
                                        o.fail("harness", "C18/harness", e);
                                        cleanup(&dir);
                                        return o;
                                    }
                                };
                                let here = std::fs::read_to_string(&po).unwrap_or_default();
                                // (the reference build leaves a parser module exactly when the parser
                                // half succeeds - also when, in the one-call reference a test_files
                                // grammar needs, the lexer is refused afterwards)
                                let _ = cr.parser_ok;
                                let stale = clean_p.map(|c| mask_parser(&c)) != Some(mask_parser(&here));
                                if stale {
                                    // the lexer is parsed before the parser builder is even
                                    // configured: with an invalid .l file the parser module of
                                    // the earlier grammar stays (known finding, see DESIGN.md)
                                    let lexer_invalid = ltext == BROKEN_LEXER || ltext.starts_with("<unreadable lexer");
                                    if lexer_invalid && !case.probe_one_call_stale_parser {
                                        o.class("known:one-call-lexer-invalid-leaves-parser-module");
                                    } else {
                                        o.fail(
                                            "wrong",
                                            if lexer_invalid { "C18/stale-parser-after-failed-build/one-call-lexer-invalid" } else { "C18/stale-parser-after-failed-build" },
                                            ctx("the one-call build failed but the parser module of an earlier grammar is still at the output path"),
                                        );
                                        cleanup(&dir);
                                        return o;
                                    }
                                }
                            }
                        } else if !r.parser_ok && po.exists() {
                            let stale = std::fs::read(&po).ok() == before_p && before_p.is_some();
                            o.fail(
                                "wrong",
                                if stale { "C18/stale-parser-after-failed-build" } else { "C18/parser-output-after-failed-build" },
                                ctx("the parser build failed but a generated parser module is still at the output path"),
                            );
                            cleanup(&dir);
                            return o;
                        }
                        if r.parser_ok && !r.lexer_ok && lo.exists() && std::fs::read(&lo).ok() == before_l && before_l.is_some() {
                            o.fail("wrong", "C18/stale-lexer-after-failed-build", ctx("the lexer build failed but the previous lexer module is still at the output path"));
                            cleanup(&dir);
                            return o;
                        }
                        // after a failure the next build starts from whatever is there; forget the
                        // last successful state so that "unchanged" is judged against a success
                        last_ok = None;
                    }
                    // logical time for the outputs this build has written (their file time is the
                    // real clock's now): newer than every source so far, also after a partly failed
                    // build. A file the build did not touch keeps the time it had.
                    clock += 10;
                    if po.exists() && mtime_of(&po) != mt_p {
                        set_mtime(&po, clock);
                    }
                    if lo.exists() && mtime_of(&lo) != mt_l {
                        set_mtime(&lo, clock);
                    }
                }
            }
        }
        if nontrivial {
            o.nontrivial.push(hash64(&format!("{:?}", case.ops)));
            o.sample = Some(serde_json::json!({"history": format!("{:?}", case.ops)}));
        }
        if o.evals == 0 {
            o.evals = 1;
        }
        cleanup(&dir);
        o
    }
}

//! C04 - a syntax error is reported at the first lexeme that cannot continue a sentence.

use crate::exec::{Outcome, Prop, Tier, hash64};
use crate::genr::grammar::{GenOpts, render_simple};
use crate::harness::{BuildErr, build, error_index, parse_tree, parse_tree_rec};
use crate::props::c01::{Case, decode_case};
use crate::refimpl::earley::Earley;
use crate::refimpl::lr1;
use lrpar::RecoveryKind;
use serde_json::Value;

pub struct C04;

fn opts(tier: Tier) -> GenOpts {
    GenOpts {
        max_rules: tier.pick(4, 6),
        max_prods: 3,
        max_syms: 4,
        max_tokens: 4,
        allow_cycles: false,
        allow_unproductive: false,
        strata: [5, 0, 4, 1],
        precedence: false,
        avoid_insert: false,
        pad_tokens: true,
    }
}

pub const CAP: u64 = crate::harness::RECOVERY_CAP;

impl Prop for C04 {
    fn id(&self) -> &'static str {
        "C04"
    }
    fn fuzz_target(&self) -> Option<&'static str> {
        Some("fz_choices")
    }
    fn fuzz_runs(&self) -> u64 {
        150000
    }
    fn stream_len(&self, _tier: Tier) -> usize {
        500
    }
    fn cases(&self, tier: Tier) -> u32 {
        tier.pick(300_000, 5_000_000)
    }
    fn decode(&self, choices: &[u32], tier: Tier) -> Value {
        let c = decode_case(choices, tier, &opts(tier), 12, &[1, 6, 3]);
        serde_json::to_value(c).unwrap()
    }
    fn rule(&self) -> String {
        "AG without precedence, cycle-free, all rules productive (strata rand, lr1, repo); only grammars whose table has conflicts()==None are judged; 12 inputs each (near misses, random strings); sentences are skipped. Oracle: k = Earley first non-viable index; recovery off: no value, exactly one error at lexeme k (or zero-length end-of-input lexeme at the end of the last lexeme); recovery on (hooks: budget override + expansion cap 1500): errors[0] at the same lexeme. Evaluation = one (grammar, non-sentence). Non-trivial: k>=1 and the canonical LR(1) driver performs >=1 reduction on the offending lookahead or Pager merged states; distinct by hash(grammar,input).".into()
    }
    fn assumptions(&self) -> Vec<String> {
        vec!["Earley recogniser is the viable-prefix oracle; stidx() only required to be a valid state".into()]
    }
    fn required_classes(&self, _tier: Tier) -> Vec<&'static str> {
        vec!["error-at-eof", "error-at-0", "error-inside", "reduced-before-error", "recovery-on-checked"]
    }
    fn evaluate(&self, case: &Value) -> Outcome {
        let case: Case = serde_json::from_value(case.clone()).unwrap();
        let mut o = Outcome::new();
        let ag = &case.ag;
        o.evals = 1;
        let b = match build(ag) {
            Ok(b) => b,
            Err(BuildErr::Grammar(e)) => {
                o.fail("harness", "C04/grammar-rejected", format!("{e}\n{}", render_simple(ag)));
                return o;
            }
            Err(BuildErr::Table(_)) => {
                o.discard("accept-reduce-conflict");
                return o;
            }
        };
        if b.st.conflicts().is_some() {
            o.discard("has-conflicts");
            return o;
        }
        let earley = Earley::new(ag);
        let lr = lr1::build(ag, 1500).filter(|l| l.conflict_free());
        let merged = lr
            .as_ref()
            .map(|l| usize::from(b.sg.all_states_len()) < l.states.len())
            .unwrap_or(false);
        let gkey = ag.canonical_string();
        o.evals = 0;
        for (input, layout) in case.inputs.iter().zip(case.layouts.iter()) {
            let (acc, nv) = earley.run(input);
            if acc {
                continue;
            }
            let k = nv.unwrap();
            o.evals += 1;
            o.class(if k == input.len() {
                "error-at-eof"
            } else if k == 0 {
                "error-at-0"
            } else {
                "error-inside"
            });
            let reds = crate::harness::reductions_before_error(&b, input);
            if reds > 0 {
                o.class("reduced-before-error");
            }
            if k >= 1 && (reds > 0 || merged) {
                o.nontrivial.push(hash64(&format!("{gkey}{input:?}")));
                if o.sample.is_none() {
                    o.sample = Some(serde_json::json!({
                        "grammar": render_simple(ag),
                        "input": input.iter().map(|t| ag.tokens[*t].clone()).collect::<Vec<_>>(),
                        "first_nonviable": k,
                    }));
                }
            }
            // recovery off
            let (tree, errs) = match parse_tree(&b, input, layout, RecoveryKind::None, None) {
                Ok(x) => x,
                Err(e) => {
                    o.fail("harness", "C04/harness", e);
                    return o;
                }
            };
            if tree.is_some() || errs.len() != 1 {
                o.fail(
                    "wrong",
                    "C04/off/result-shape",
                    format!(
                        "non-sentence {input:?}: value={} errors={} (expected none and exactly one)\n{}",
                        tree.is_some(),
                        errs.len(),
                        render_simple(ag)
                    ),
                );
                return o;
            }
            match error_index(&b, &errs[0], input, layout) {
                Ok(i) if i == k => {}
                Ok(i) => {
                    o.fail(
                        "wrong",
                        "C04/off/error-position",
                        format!("input {input:?}: error reported at lexeme {i}, first non-viable lexeme is {k}\n{}", render_simple(ag)),
                    );
                    return o;
                }
                Err(e) => {
                    o.fail("wrong", "C04/off/error-lexeme", format!("input {input:?}: {e}\n{}", render_simple(ag)));
                    return o;
                }
            }
            if !errs[0].repairs.is_empty() {
                o.fail("wrong", "C04/off/repairs-without-recovery", format!("input {input:?}"));
                return o;
            }
            if errs[0].stidx >= usize::from(b.sg.all_states_len()) {
                o.fail("wrong", "C04/off/stidx-out-of-range", format!("input {input:?}"));
                return o;
            }
            // recovery on: first error at the same lexeme
            match parse_tree_rec(&b, input, layout, None, CAP) {
                Err(e) => {
                    o.fail("harness", "C04/harness", e);
                    return o;
                }
                Ok((_t, errs_on, cap_hit)) => {
                    if errs_on.is_empty() {
                        o.fail(
                            "wrong",
                            "C04/on/no-error",
                            format!("non-sentence {input:?}: recovery on reports no error (cap hit: {cap_hit})\n{}", render_simple(ag)),
                        );
                        return o;
                    }
                    o.class("recovery-on-checked");
                    if cap_hit {
                        o.class("cap-hit");
                    }
                    match error_index(&b, &errs_on[0], input, layout) {
                        Ok(i) if i == k => {}
                        Ok(i) => {
                            o.fail(
                                "wrong",
                                "C04/on/error-position",
                                format!("input {input:?}: first error with recovery at lexeme {i}, expected {k}\n{}", render_simple(ag)),
                            );
                            return o;
                        }
                        Err(e) => {
                            o.fail("wrong", "C04/on/error-lexeme", format!("input {input:?}: {e}\n{}", render_simple(ag)));
                            return o;
                        }
                    }
                }
            }
        }
        if o.evals == 0 {
            o.evals = 1;
            o.discard("only-sentences");
        }
        o
    }
}

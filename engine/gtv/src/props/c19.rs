//! C19 - byte offsets map to the right lines and columns; line extraction never fails.

use crate::exec::{Outcome, Prop, Tier, catch, hash64};
use crate::genr::choices::Choices;
use cfgrammar::{NewlineCache, Span};
use lrlex::{DefaultLexerTypes, LRNonStreamingLexerDef, LexerDef};
use lrpar::{LexError, LexParseError, Lexeme, Lexer, NonStreamingLexer};
use serde::{Deserialize, Serialize};
use serde_json::Value;
use unicode_width::UnicodeWidthStr;

pub struct C19;

#[derive(Serialize, Deserialize, Debug, Clone)]
pub struct Case {
    pub chunks: Vec<String>,
}

const FRAG: &[&str] = &["a", "é", "漢", " ", "\t", "b", "♠", "\u{200b}"];
const SEPS: &[&str] = &["\n", "\r\n", "\r", "\n\n", "\n\r\n"];

pub fn gen_text(ch: &mut Choices, max_lines: usize, max_frag: usize) -> String {
    let mut text = String::new();
    let lines = ch.range(0, max_lines);
    for i in 0..lines {
        let n = ch.weighted(&[2, 3, 3, 2, 1, 1, 1]).min(max_frag);
        for _ in 0..n {
            text.push_str(*ch.choose(FRAG));
        }
        if i + 1 < lines {
            text.push_str(SEPS[ch.weighted(&[6, 3, 1, 1, 1])]);
        }
    }
    // trailing newline or not
    match ch.weighted(&[3, 2, 1]) {
        0 => {}
        1 => text.push('\n'),
        _ => text.push_str("\r\n"),
    }
    text
}

pub fn chunk_text(ch: &mut Choices, text: &str) -> Vec<String> {
    let bounds: Vec<usize> = (0..=text.len())
        .filter(|i| text.is_char_boundary(*i))
        .collect();
    let ncuts = ch.weighted(&[3, 2, 2, 1, 1, 1]);
    let mut cuts: Vec<usize> = (0..ncuts).map(|_| *ch.choose(&bounds)).collect();
    cuts.sort();
    let mut chunks = vec![];
    let mut prev = 0;
    for c in cuts {
        chunks.push(text[prev..c].to_string()); // may be empty (duplicate cut points)
        prev = c;
    }
    chunks.push(text[prev..].to_string());
    chunks
}

// ---------------------------------------------------------------------------------------------
// naive reference

pub fn ref_line_num(text: &str, o: usize) -> usize {
    1 + text.as_bytes()[..o].iter().filter(|b| **b == b'\n').count()
}

pub fn ref_line_start(text: &str, o: usize) -> usize {
    text.as_bytes()[..o]
        .iter()
        .rposition(|b| *b == b'\n')
        .map(|i| i + 1)
        .unwrap_or(0)
}

/// End (exclusive, newline not included) of the line containing offset `o`.
pub fn ref_line_end(text: &str, o: usize) -> usize {
    // byte-wise: `o` may be the last byte of a multi-byte character
    text.as_bytes()[o..]
        .iter()
        .position(|b| *b == b'\n')
        .map(|i| o + i)
        .unwrap_or(text.len())
}

pub fn ref_line_col(text: &str, o: usize) -> (usize, usize) {
    let ls = ref_line_start(text, o);
    let mut col = 1 + text[ls..o].chars().count();
    // the LF of a CR LF pair reports the column of its CR
    if text[o..].starts_with('\n') && text[..o].ends_with('\r') {
        col -= 1;
    }
    (ref_line_num(text, o), col)
}

/// Accepted answers for the lines-of-span query: (start, set of accepted ends).
pub fn ref_span_lines(text: &str, s: usize, e: usize) -> (usize, Vec<usize>) {
    let st = ref_line_start(text, s);
    let mut ends = vec![];
    if e > s {
        // line containing the last byte
        ends.push(ref_line_end(text, e - 1));
        // tolerated reading pinned by the repository's tests: a span ending exactly at a line
        // start extends to the end of the line starting there
        if text.as_bytes()[e - 1] == b'\n' {
            ends.push(ref_line_end(text, e));
        }
    } else {
        ends.push(ref_line_end(text, s));
    }
    (st, ends)
}

fn boundaries(text: &str) -> Vec<usize> {
    (0..=text.len())
        .filter(|i| text.is_char_boundary(*i))
        .collect()
}

impl Prop for C19 {
    fn id(&self) -> &'static str {
        "C19"
    }
    fn fuzz_target(&self) -> Option<&'static str> {
        Some("fz_lines")
    }
    fn stream_len(&self, tier: Tier) -> usize {
        tier.pick(80, 200)
    }
    fn cases(&self, tier: Tier) -> u32 {
        tier.pick(800_000, 12_000_000)
    }
    fn watchdog_ms(&self) -> u64 {
        10_000
    }
    fn decode(&self, choices: &[u32], tier: Tier) -> Value {
        let mut ch = Choices::new(choices);
        let mut text = gen_text(&mut ch, tier.pick(5, 9), 6);
        // 1/8: many short lines first, so that line numbers gain a digit (9 -> 10, 99 -> 100)
        // inside the text
        if ch.chance(1, 24) {
            let n = if ch.chance(1, 6) { ch.range(94, 100) } else { ch.range(4, 11) };
            let mut pre = String::new();
            for _ in 0..n {
                pre.push_str(*ch.choose(&["", "", "", "a", "", "é"]));
                pre.push_str(*ch.choose(&["\n", "\n", "\n", "\r\n"]));
            }
            text = format!("{pre}{text}");
        }
        let chunks = chunk_text(&mut ch, &text);
        serde_json::to_value(Case { chunks }).unwrap()
    }
    fn rule(&self) -> String {
        "texts from line fragments over {a,é,漢,♠,space,tab,ZERO WIDTH SPACE} joined by LF/CRLF/lone CR, random chunkings on char boundaries (empty chunks included); every char-boundary offset and every span (s<=e) of the text is queried (NewlineCache, the lexer's line_col/span_lines_str, LexParseError::pp for lexing errors and for every parse error (recovery off and on; repairs with inserts, shifts and runs of adjacent deletes), and the builders' SpannedDiagnosticFormatter::file_location_msg / underline_span_with_text) and compared with a naive scan (1+count of LF; chars since line start; rfind/find of LF; numbered source rows, each followed by an underline row that starts below the first covered character of that line and is as wide as the covered part). 1/24 of the texts start with 4-11 or 94-100 short lines so that line numbers gain a digit inside the text (for texts with more than 70 boundaries only the spans between a subset of at most 44 boundaries - those of lines 9-10 and 99-100, every k-th, the end - are queried). One evaluation = one (text,chunking) with all its offsets and spans. Non-trivial: >=2 lines and (multi-byte char or CRLF) and a query touching a line boundary/end of text (always the case since all boundaries are enumerated); distinct by (text, chunking).".into()
    }
    fn assumptions(&self) -> Vec<String> {
        vec![
            "when a non-empty span ends exactly at a line start both the line of its last byte and the line starting there are accepted as the end line (the repository's tests pin the second reading)".into(),
            "the end of a line excludes its LF but keeps a CR".into(),
        ]
    }
    fn required_classes(&self, _tier: Tier) -> Vec<&'static str> {
        vec!["crlf", "multibyte", "multi-chunk", "empty-text", "trailing-newline", "span-ends-at-line-start", "pp-lex-error", "pp-parse-error", "pp-repair-insert", "pp-adjacent-deletes", "lines>=10"]
    }

    fn evaluate(&self, case: &Value) -> Outcome {
        let case: Case = serde_json::from_value(case.clone()).unwrap();
        let mut o = Outcome::new();
        o.evals = 1;
        let text: String = case.chunks.concat();
        let cache: NewlineCache = case.chunks.iter().map(|s| s.as_str()).collect();
        let bs = boundaries(&text);
        let nlines = ref_line_num(&text, text.len());
        if text.is_empty() {
            o.class("empty-text");
        }
        if text.contains("\r\n") {
            o.class("crlf");
        }
        if text.chars().any(|c| c.len_utf8() > 1) {
            o.class("multibyte");
        }
        if case.chunks.len() > 1 {
            o.class("multi-chunk");
        }
        if case.chunks.iter().any(|c| c.is_empty()) && case.chunks.len() > 1 {
            o.class("empty-chunk");
        }
        if text.ends_with('\n') {
            o.class("trailing-newline");
        }
        if nlines >= 2 && (text.contains("\r\n") || text.chars().any(|c| c.len_utf8() > 1)) {
            o.nontrivial
                .push(hash64(&serde_json::to_string(&case.chunks).unwrap()));
        }

        // offsets
        for &off in &bs {
            let exp_line = ref_line_num(&text, off);
            let exp_lb = ref_line_start(&text, off);
            let exp_lc = ref_line_col(&text, off);
            let got = catch(|| {
                (
                    cache.byte_to_line_num(off),
                    cache.byte_to_line_byte(off),
                    cache.byte_to_line_num_and_col_num(&text, off),
                )
            });
            match got {
                Err(p) => {
                    o.fail("panic", p.signature(), format!("offset {off}: {}", p.detail()));
                    return o;
                }
                Ok((ln, lb, lc)) => {
                    if ln != Some(exp_line) {
                        o.fail(
                            "wrong",
                            "C19/byte_to_line_num",
                            format!("offset {off}: got {ln:?}, expected {exp_line}"),
                        );
                        return o;
                    }
                    if lb != Some(exp_lb) {
                        o.fail(
                            "wrong",
                            "C19/byte_to_line_byte",
                            format!("offset {off}: got {lb:?}, expected {exp_lb}"),
                        );
                        return o;
                    }
                    if lc != Some(exp_lc) {
                        o.fail(
                            "wrong",
                            "C19/byte_to_line_num_and_col_num",
                            format!("offset {off}: got {lc:?}, expected {exp_lc:?}"),
                        );
                        return o;
                    }
                }
            }
        }
        // beyond the text / wrong src
        for extra in [1usize, 2, 7] {
            let off = text.len() + extra;
            let got = catch(|| {
                (
                    cache.byte_to_line_num(off),
                    cache.byte_to_line_byte(off),
                    cache.byte_to_line_num_and_col_num(&text, off),
                )
            });
            match got {
                Err(p) => {
                    o.fail("panic", p.signature(), format!("offset beyond text {off}: {}", p.detail()));
                    return o;
                }
                Ok(t) => {
                    if t != (None, None, None) {
                        o.fail(
                            "wrong",
                            "C19/beyond-text-not-none",
                            format!("offset {off} beyond len {}: got {t:?}", text.len()),
                        );
                        return o;
                    }
                }
            }
        }
        {
            let longer = format!("{text}x");
            match catch(|| cache.byte_to_line_num_and_col_num(&longer, 0)) {
                Err(p) => {
                    o.fail("panic", p.signature(), p.detail());
                    return o;
                }
                Ok(r) => {
                    if r.is_some() {
                        o.fail(
                            "wrong",
                            "C19/other-src-not-none",
                            format!("src of another length accepted: {r:?}"),
                        );
                        return o;
                    }
                }
            }
        }

        // spans: NewlineCache + lexer views
        let lexerdef =
            LRNonStreamingLexerDef::<DefaultLexerTypes<u32>>::from_str("%%\n[ab]+ 'W'\n").unwrap();
        let lexer = lexerdef.lexer(&text);
        let gpath = std::path::Path::new("g.y");
        let fmt = lrpar::diagnostics::SpannedDiagnosticFormatter::new(&text, gpath);
        // all spans of short texts; for long ones the spans between a subset of the boundaries:
        // those around the lines whose number gains a digit, and every k-th boundary
        let sbs: Vec<usize> = if bs.len() <= 70 {
            bs.clone()
        } else {
            o.class("long-text:spans-sampled");
            let k = bs.len() / 10 + 1;
            bs.iter()
                .enumerate()
                .filter(|(i, b)| {
                    let l = ref_line_num(&text, **b);
                    i % k == 0 || (9..=10).contains(&l) || (99..=100).contains(&l) || **b == text.len()
                })
                .map(|(_, b)| *b)
                .take(44)
                .collect()
        };
        if nlines >= 10 {
            o.class("lines>=10");
        }
        for (i, &s) in sbs.iter().enumerate() {
            for &e in &sbs[i..] {
                let (exp_st, exp_ens) = ref_span_lines(&text, s, e);
                if e > s && text.as_bytes()[e - 1] == b'\n' {
                    o.class("span-ends-at-line-start");
                }
                let span = Span::new(s, e);
                match catch(|| cache.span_line_bytes(span)) {
                    Err(p) => {
                        o.fail(
                            "panic",
                            format!("C19/span_line_bytes/{}", p.signature()),
                            format!("span {s}..{e}: {}", p.detail()),
                        );
                        return o;
                    }
                    Ok((st, en)) => {
                        if st != exp_st || !exp_ens.contains(&en) {
                            o.fail(
                                "wrong",
                                "C19/span_line_bytes/wrong",
                                format!(
                                    "span {s}..{e}: got ({st},{en}), expected start {exp_st}, end in {exp_ens:?}"
                                ),
                            );
                            return o;
                        }
                    }
                }
                // the builders' diagnostics (error / conflict reports of the compile-time tools)
                match catch(|| (fmt.file_location_msg("M", Some(span)), fmt.underline_span_with_text(span, "note".to_string(), '^'))) {
                    Err(p) => {
                        o.fail(
                            "panic",
                            format!("C19/diagnostics/{}", p.signature()),
                            format!("span {s}..{e} of {text:?}: {}", p.detail()),
                        );
                        return o;
                    }
                    Ok((loc, under)) => {
                        let (l, c) = ref_line_col(&text, s);
                        let exp_loc = format!("M at g.y:{l}:{c}");
                        if loc != exp_loc {
                            o.fail("wrong", "C19/diagnostics/file_location_msg", format!("span {s}..{e} of {text:?}: got {loc:?}, expected {exp_loc:?}"));
                            return o;
                        }
                        // rows "N| <source line>" for the lines the span touches, numbered from
                        // the line of its first byte; each followed by an underline row
                        let covered: Vec<&str> = exp_ens.iter().map(|en| &text[exp_st..*en]).collect();
                        let ok = covered.iter().any(|cov| {
                            let mut src_lines: Vec<&str> = cov.lines().collect();
                            if src_lines.is_empty() {
                                // an empty line is still a line (and carries the message)
                                src_lines.push("");
                            }
                            let rows: Vec<&str> = under.split('\n').collect();
                            // a source line may contain a lone CR but never LF
                            if !(rows.len() == 2 * src_lines.len()
                                && src_lines.iter().enumerate().all(|(k, sl)| rows[2 * k] == format!("{}| {}", l + k, sl))
                                && rows.last().map(|r| r.ends_with(" note")).unwrap_or(false))
                            {
                                return false;
                            }
                            // the underline row of every line marks the part of that line the span
                            // covers: it starts below the first covered character (display columns,
                            // after the "N| " gutter of *that* row) and is as wide as the covered
                            // text (one mark for an empty part)
                            let mut ls = exp_st;
                            src_lines.iter().enumerate().all(|(k, sl)| {
                                let le = ls + sl.len();
                                let us = s.clamp(ls, le);
                                let ue = e.clamp(us, le);
                                let gutter = format!("{}| ", l + k).len();
                                let indent = gutter + UnicodeWidthStr::width(&text[ls..us]);
                                let marks = UnicodeWidthStr::width(&text[us..ue]).max(1);
                                let mut exp_row = format!("{}{}", " ".repeat(indent), "^".repeat(marks));
                                if k + 1 == src_lines.len() {
                                    exp_row.push_str(" note");
                                }
                                // next line: after this line's terminator (LF or CR LF; a lone CR is
                                // part of the line)
                                ls = le + if text[le..].starts_with("\r\n") { 2 } else { 1 };
                                rows[2 * k + 1] == exp_row
                            })
                        });
                        if !ok {
                            o.fail(
                                "wrong",
                                "C19/diagnostics/underline_span_with_text",
                                format!("span {s}..{e} of {text:?}: got {under:?}, expected numbered rows from line {l} for the text {:?}", covered.first()),
                            );
                            return o;
                        }
                    }
                }
                match catch(|| (lexer.span_lines_str(span), lexer.line_col(span))) {
                    Err(p) => {
                        o.fail(
                            "panic",
                            format!("C19/lexer/{}", p.signature()),
                            format!("span {s}..{e}: {}", p.detail()),
                        );
                        return o;
                    }
                    Ok((ls, lc)) => {
                        let ok_str = exp_ens.iter().any(|en| ls == &text[exp_st..*en]);
                        if !ok_str {
                            o.fail(
                                "wrong",
                                "C19/span_lines_str/wrong",
                                format!("span {s}..{e}: got {ls:?}"),
                            );
                            return o;
                        }
                        let exp = (ref_line_col(&text, s), ref_line_col(&text, e));
                        if lc != exp {
                            o.fail(
                                "wrong",
                                "C19/line_col/wrong",
                                format!("span {s}..{e}: got {lc:?} expected {exp:?}"),
                            );
                            return o;
                        }
                    }
                }
            }
        }
        // pretty-printing of a parse error reports the position of its lexeme
        {
            use std::sync::OnceLock;
            type G = (cfgrammar::yacc::YaccGrammar<u32>, lrtable::StateTable<u32>, LRNonStreamingLexerDef<DefaultLexerTypes<u32>>);
            static PARSER: OnceLock<G> = OnceLock::new();
            let (grm, st, ld) = PARSER.get_or_init(|| {
                let grm = cfgrammar::yacc::YaccGrammar::<u32>::new_with_storaget(
                    cfgrammar::yacc::YaccKind::Original(cfgrammar::yacc::YaccOriginalActionKind::GenericParseTree),
                    "%token Z\n%%\nS: 'W' 'X' S | 'Y' | ;\n",
                )
                .unwrap();
                let (_, st) = lrtable::from_yacc(&grm, lrtable::Minimiser::Pager).unwrap();
                let mut ld = LRNonStreamingLexerDef::<DefaultLexerTypes<u32>>::from_str("%%\n[ab]+ 'W'\n\u{e9}+ 'X'\n\u{6f22}+ 'Y'\n[^ab\u{e9}\u{6f22} \\t\\r\\n]+ 'Z'\n[ \\t\\r\\n]+ ;\n").unwrap();
                let map: std::collections::HashMap<&str, u32> = grm.tokens_map().iter().map(|(k, v)| (*k, u32::from(*v))).collect();
                ld.set_rule_ids(&map);
                (grm, st, ld)
            });
            let plexer = ld.lexer(&text);
            for rk in [lrpar::RecoveryKind::None, lrpar::RecoveryKind::CPCTPlus] {
                let errs = match catch(|| lrpar::RTParserBuilder::new(grm, st).recoverer(rk).parse_map(&plexer, &|_| (), &|_, _| ()).1) {
                    Ok(e) => e,
                    Err(p) => {
                        o.fail("panic", format!("C19/parse/{}", p.signature()), p.detail());
                        return o;
                    }
                };
                for e in errs.iter() {
                    let LexParseError::ParseError(pe) = e else { continue };
                    let (l, c) = ref_line_col(&text, pe.lexeme().span().start());
                    for r in pe.repairs().iter().flatten() {
                        match r {
                            lrpar::ParseRepair::Insert(_) => o.class("pp-repair-insert"),
                            lrpar::ParseRepair::Delete(_) => o.class("pp-repair-delete"),
                            lrpar::ParseRepair::Shift(_) => o.class("pp-repair-shift"),
                        }
                    }
                    if pe.repairs().iter().any(|rs| rs.windows(2).any(|w| matches!((&w[0], &w[1]), (lrpar::ParseRepair::Delete(a), lrpar::ParseRepair::Delete(b)) if a.span().end() == b.span().start()))) {
                        o.class("pp-adjacent-deletes");
                    }
                    match catch(|| e.pp(&plexer, &|t| grm.token_epp(t))) {
                        Err(p) => {
                            o.fail("panic", format!("C19/pp-parse-error/{}", p.signature()), p.detail());
                            return o;
                        }
                        Ok(s) => {
                            o.class("pp-parse-error");
                            let nums: Vec<usize> = s.split(|ch: char| !ch.is_ascii_digit()).filter(|x| !x.is_empty()).filter_map(|x| x.parse().ok()).collect();
                            if nums.len() < 2 || nums[0] != l || nums[1] != c {
                                o.fail("wrong", "C19/pp-parse-error/wrong", format!("got {s:?} expected line {l} column {c} for {text:?}"));
                                return o;
                            }
                        }
                    }
                }
            }
        }
        // pretty-printing of a lexing error reports the position of its span
        if let Some(Err(le)) = lexer.iter().find(|r| r.is_err()) {
            let sp = le.span();
            let (l, c) = ref_line_col(&text, sp.start());
            let lpe: LexParseError<u32, DefaultLexerTypes<u32>> = LexParseError::LexError(le);
            match catch(|| lpe.pp(&lexer, &|_| None)) {
                Err(p) => {
                    o.fail("panic", format!("C19/pp/{}", p.signature()), p.detail());
                    return o;
                }
                Ok(s) => {
                    o.class("pp-lex-error");
                    // the exact wording is documented as unstable: compare the numbers only
                    let nums: Vec<usize> = s
                        .split(|ch: char| !ch.is_ascii_digit())
                        .filter(|x| !x.is_empty())
                        .filter_map(|x| x.parse().ok())
                        .collect();
                    if nums.len() < 2 || nums[0] != l || nums[1] != c {
                        o.fail(
                            "wrong",
                            "C19/pp/wrong",
                            format!("got {s:?} expected line {l} column {c}"),
                        );
                        return o;
                    }
                }
            }
        }
        o
    }
}

//! C03 - conflicts are resolved by Yacc's rules and reported exactly.

use crate::exec::{Outcome, Prop, Tier, hash64};
use crate::genr::choices::Choices;
use crate::genr::grammar::{AG, Assoc, gen_grammar, render_simple};
use crate::harness::{BuildErr, Built, build};
use crate::props::c01::vob_get;
use crate::props::c16::table_opts;
use crate::refimpl::lr1;
use cfgrammar::yacc::YaccKind;
use cfgrammar::{PIdx, Symbol};
use lrlex::DefaultLexerTypes;
use lrpar::CTParserBuilder;
use lrtable::Action;
use serde::{Deserialize, Serialize};
use serde_json::Value;
use std::collections::BTreeMap;
use std::sync::atomic::{AtomicU64, Ordering};

pub struct C03;

#[derive(Serialize, Deserialize, Debug, Clone)]
pub struct Case {
    pub ag: AG,
    /// How `%expect`/`%expect-rr` are chosen relative to the true counts:
    /// 0 absent, 1 true count, 2 true+1, 3 true-1 (saturating), 4 zero. `None`: no compile-time build.
    pub expect_mode: Option<(u8, u8)>,
}

#[derive(Clone, Copy, Debug, PartialEq, Eq)]
enum Exp {
    Shift(usize),
    Reduce(usize),
    Accept,
    Error,
}

fn act_to_exp(a: Action<u32>) -> Exp {
    match a {
        Action::Shift(s) => Exp::Shift(usize::from(s)),
        Action::Reduce(p) => Exp::Reduce(usize::from(p)),
        Action::Accept => Exp::Accept,
        Action::Error => Exp::Error,
    }
}

static UNIQ: AtomicU64 = AtomicU64::new(0);

/// AG source order of an implementation production.
fn order_of(b: &Built<u32>, flat: &lr1::Flat, p: usize) -> usize {
    match b.ag_prod(PIdx(p as u32)) {
        Some((r, k)) => flat.rule_prods[r][k],
        None => usize::MAX,
    }
}

impl Prop for C03 {
    fn id(&self) -> &'static str {
        "C03"
    }
    fn fuzz_target(&self) -> Option<&'static str> {
        Some("fz_choices")
    }
    fn fuzz_runs(&self) -> u64 {
        60_000
    }
    fn stream_len(&self, _tier: Tier) -> usize {
        300
    }
    fn cases(&self, tier: Tier) -> u32 {
        tier.pick(500_000, 8_000_000)
    }
    fn decode(&self, choices: &[u32], tier: Tier) -> Value {
        let mut ch = Choices::new(choices);
        let mut o = table_opts(tier);
        o.strata = [2, 6, 0, 1];
        let ag = gen_grammar(&mut ch, &o);
        // a compile-time build for a fraction of the cases (file output: ~1 ms each)
        let expect_mode = if ch.chance(1, tier.pick(40, 20)) {
            Some((ch.pick(5) as u8, ch.pick(5) as u8))
        } else {
            None
        };
        serde_json::to_value(Case { ag, expect_mode }).unwrap()
    }
    fn rule(&self) -> String {
        "AG meant to have conflicts: stratum expr (binary/prefix/postfix operators, random %left/%right/%nonassoc lines, tokens without precedence, %prec overrides, same right-hand side in 2-3 rules), rand with random precedence lines, repo. Oracle: every (state,token) cell re-derived from closed_state()/edges() and the AG's precedence model; conflict lists compared as multisets with the cells settled by the two default rules; accept+reduce => Err; for ~1/40 of the cases a compile-time build with %expect/%expect-rr in {absent,true,true+1,true-1,0} must fail iff the counts differ (for a third of the mismatching cases after a lenient error_on_conflicts(false) build process has left a module at the same output path). Evaluation = one grammar (all cells). Non-trivial: >=1 cell with >=2 candidates; distinct by hash(grammar).".into()
    }
    fn assumptions(&self) -> Vec<String> {
        vec![
            "cells offering a shift and two or more reductions are only required to hold one of the candidates (the statement does not fix whether precedence or 'earlier production' is consulted first); their conflict entries are only required to mention candidates of that cell".into(),
        ]
    }
    fn required_classes(&self, _tier: Tier) -> Vec<&'static str> {
        vec![
            "sr:default-shift",
            "sr:left-reduce",
            "sr:right-shift",
            "sr:nonassoc-error",
            "sr:token-higher",
            "sr:prod-higher",
            "sr:prec-override",
            "rr:2way",
            "rr:3way",
            "three-way-cell",
            "expect:build-ok",
            "expect:build-err",
            "expect:after-lenient-build",
        ]
    }
    fn evaluate(&self, case: &Value) -> Outcome {
        let case: Case = serde_json::from_value(case.clone()).unwrap();
        let mut o = Outcome::new();
        let ag = &case.ag;
        o.evals = 1;
        let src = render_simple(ag);
        let b = match build(ag) {
            Ok(b) => b,
            Err(BuildErr::Grammar(e)) => {
                o.fail("harness", "C03/grammar-rejected", format!("{e}\n{src}"));
                return o;
            }
            Err(BuildErr::Table(_)) => {
                o.class("accept-reduce-err");
                // nothing more to inspect (no graph is returned); the converse direction is
                // checked below on every Ok table
                return o;
            }
        };
        let flat = lr1::flatten(ag);
        let grm = &b.grm;
        let mut exp_sr: Vec<(usize, usize, usize)> = vec![]; // token, prod, state
        let mut rr_cells: Vec<(usize, usize, Vec<usize>)> = vec![]; // state, token, candidates
        let mut free_cells: Vec<(usize, usize, Vec<usize>)> = vec![]; // three-way cells
        let mut nontrivial = false;
        for s in b.sg.iter_stidxs() {
            let si = usize::from(s);
            let closed = b.sg.closed_state(s);
            for t in grm.iter_tidxs() {
                let ti = usize::from(t);
                let shift = b.sg.edge(s, Symbol::Token(t)).map(usize::from);
                let mut reds: Vec<usize> = vec![];
                let mut accept = false;
                for ((p, d), ctx) in closed.items.iter() {
                    if usize::from(*d) == grm.prod(*p).len() && vob_get(ctx, ti) {
                        if *p == grm.start_prod() {
                            accept = true;
                        } else {
                            reds.push(usize::from(*p));
                        }
                    }
                }
                reds.sort_by_key(|p| order_of(&b, &flat, *p));
                reds.dedup();
                let got = act_to_exp(b.st.action(s, t));
                if accept && (!reds.is_empty() || shift.is_some()) {
                    o.fail(
                        "wrong",
                        "C03/accept-conflict-not-refused",
                        format!("state {si}: accept competes with another action but construction returned Ok\n{src}"),
                    );
                    return o;
                }
                let ncand = reds.len() + usize::from(shift.is_some()) + usize::from(accept);
                if ncand >= 2 {
                    nontrivial = true;
                }
                let expected: Exp = if accept {
                    Exp::Accept
                } else if reds.is_empty() {
                    match shift {
                        Some(x) => Exp::Shift(x),
                        None => Exp::Error,
                    }
                } else if shift.is_none() {
                    if reds.len() >= 2 {
                        o.class(if reds.len() == 2 { "rr:2way" } else { "rr:3way" });
                        rr_cells.push((si, ti, reds.clone()));
                    }
                    Exp::Reduce(reds[0])
                } else if reds.len() >= 2 {
                    // shift + >= 2 reductions: tolerated (see assumptions)
                    o.class("three-way-cell");
                    free_cells.push((si, ti, reds.clone()));
                    let ok = match got {
                        Exp::Shift(x) => Some(x) == shift,
                        Exp::Reduce(p) => reds.contains(&p),
                        Exp::Error => true,
                        Exp::Accept => false,
                    };
                    if !ok {
                        o.fail(
                            "wrong",
                            "C03/cell-holds-non-candidate",
                            format!("state {si} token {ti}: {got:?} is none of the candidates shift {shift:?} / reductions {reds:?}\n{src}"),
                        );
                        return o;
                    }
                    continue;
                } else {
                    // shift versus one reduction
                    let p = reds[0];
                    let agt = b.ag_token(t);
                    let tprec = agt.and_then(|x| ag.token_prec(x));
                    let pprec = b
                        .ag_prod(PIdx(p as u32))
                        .and_then(|(r, k)| ag.prod_prec(&ag.rules[r].prods[k]));
                    if b
                        .ag_prod(PIdx(p as u32))
                        .map(|(r, k)| ag.rules[r].prods[k].prec.is_some())
                        .unwrap_or(false)
                    {
                        o.class("sr:prec-override");
                    }
                    match (tprec, pprec) {
                        (Some((tl, tk)), Some((pl, _pk))) => {
                            if tl > pl {
                                o.class("sr:token-higher");
                                Exp::Shift(shift.unwrap())
                            } else if tl < pl {
                                o.class("sr:prod-higher");
                                Exp::Reduce(p)
                            } else {
                                match tk {
                                    Assoc::Left => {
                                        o.class("sr:left-reduce");
                                        Exp::Reduce(p)
                                    }
                                    Assoc::Right => {
                                        o.class("sr:right-shift");
                                        Exp::Shift(shift.unwrap())
                                    }
                                    Assoc::Nonassoc => {
                                        o.class("sr:nonassoc-error");
                                        Exp::Error
                                    }
                                }
                            }
                        }
                        _ => {
                            o.class("sr:default-shift");
                            exp_sr.push((ti, p, si));
                            Exp::Shift(shift.unwrap())
                        }
                    }
                };
                if got != expected {
                    o.fail(
                        "wrong",
                        "C03/wrong-cell",
                        format!(
                            "state {si} token {} ({:?}): table holds {got:?}, Yacc's rules give {expected:?}; shift {shift:?}, reductions {reds:?} (production indices in source order)\n{src}",
                            ti,
                            grm.token_name(t)
                        ),
                    );
                    return o;
                }
            }
        }
        // conflict report
        let (mut got_sr, mut got_rr): (Vec<(usize, usize, usize)>, Vec<(usize, usize, usize, usize)>) =
            (vec![], vec![]);
        if let Some(c) = b.st.conflicts() {
            for (t, p, s) in c.sr_conflicts() {
                got_sr.push((usize::from(*t), usize::from(*p), usize::from(*s)));
            }
            for (t, p1, p2, s) in c.rr_conflicts() {
                got_rr.push((usize::from(*t), usize::from(*p1), usize::from(*p2), usize::from(*s)));
            }
            if c.sr_len() != got_sr.len() || c.rr_len() != got_rr.len() {
                o.fail("wrong", "C03/conflict-len", "sr_len/rr_len disagree with the iterators");
                return o;
            }
        }
        // entries belonging to tolerated three-way cells are only required to mention candidates
        let in_free = |s: usize, t: usize| free_cells.iter().find(|(fs, ft, _)| *fs == s && *ft == t);
        let mut sr_judged: Vec<(usize, usize, usize)> = vec![];
        for e in &got_sr {
            if let Some((_, _, reds)) = in_free(e.2, e.0) {
                if !reds.contains(&e.1) {
                    o.fail("wrong", "C03/sr-entry-non-candidate", format!("{e:?}\n{src}"));
                    return o;
                }
            } else {
                sr_judged.push(*e);
            }
        }
        sr_judged.sort();
        exp_sr.sort();
        if sr_judged != exp_sr {
            o.fail(
                "wrong",
                "C03/sr-conflict-report",
                format!("reported shift/reduce conflicts (token,prod,state) {sr_judged:?}, expected exactly the default-shift cells {exp_sr:?}\n{src}"),
            );
            return o;
        }
        // reduce/reduce: per cell with k >= 2 reductions exactly k-1 entries, losers = all but the
        // earliest, each paired with an earlier candidate of that cell
        let mut rr_by_cell: BTreeMap<(usize, usize), Vec<(usize, usize)>> = BTreeMap::new();
        for (t, p1, p2, s) in &got_rr {
            if let Some((_, _, reds)) = in_free(*s, *t) {
                if !reds.contains(p1) || !reds.contains(p2) {
                    o.fail("wrong", "C03/rr-entry-non-candidate", format!("{:?}\n{src}", (t, p1, p2, s)));
                    return o;
                }
                continue;
            }
            rr_by_cell.entry((*s, *t)).or_default().push((*p1, *p2));
        }
        let mut exp_cells: BTreeMap<(usize, usize), Vec<usize>> = BTreeMap::new();
        for (s, t, reds) in &rr_cells {
            exp_cells.insert((*s, *t), reds.clone());
        }
        if rr_by_cell.keys().collect::<Vec<_>>() != exp_cells.keys().collect::<Vec<_>>() {
            o.fail(
                "wrong",
                "C03/rr-conflict-cells",
                format!("cells with reported reduce/reduce conflicts (state,token) {:?}, cells with >=2 reductions {:?}\n{src}", rr_by_cell.keys().collect::<Vec<_>>(), exp_cells.keys().collect::<Vec<_>>()),
            );
            return o;
        }
        for (cell, entries) in &rr_by_cell {
            let reds = &exp_cells[cell];
            let mut losers: Vec<usize> = entries.iter().map(|(_, l)| *l).collect();
            losers.sort_by_key(|p| order_of(&b, &flat, *p));
            let ok_pairs = entries.iter().all(|(w, l)| {
                reds.contains(w) && reds.contains(l) && order_of(&b, &flat, *w) < order_of(&b, &flat, *l)
            });
            if losers != reds[1..].to_vec() || !ok_pairs {
                o.fail(
                    "wrong",
                    "C03/rr-conflict-report",
                    format!("cell (state,token) {cell:?}: reductions in source order {reds:?}, reported (winner,loser) pairs {entries:?}\n{src}"),
                );
                return o;
            }
        }
        if nontrivial {
            o.nontrivial.push(hash64(&ag.canonical_string()));
            o.sample = Some(serde_json::json!({"grammar": src, "sr": got_sr.len(), "rr": got_rr.len()}));
        }

        // %expect clause through the compile-time builder
        if let Some((m1, m2)) = case.expect_mode {
            let sr = got_sr.len();
            let rr = got_rr.len();
            let pick = |m: u8, n: usize| -> Option<usize> {
                match m {
                    0 => None,
                    1 => Some(n),
                    2 => Some(n + 1),
                    3 => Some(n.saturating_sub(1)),
                    _ => Some(0),
                }
            };
            let mut ag2 = ag.clone();
            ag2.expect = pick(m1, sr);
            ag2.expect_rr = pick(m2, rr);
            let src2 = render_simple(&ag2);
            let should_fail = (ag2.expect.unwrap_or(0), ag2.expect_rr.unwrap_or(0)) != (sr, rr);
            let root = std::env::var("GTV_ROOT").unwrap_or_else(|_| "/verif".into());
            let dir = std::path::PathBuf::from(root)
                .join("work")
                .join("c03")
                .join(format!("{}", std::process::id()));
            let _ = std::fs::create_dir_all(&dir);
            let n = UNIQ.fetch_add(1, Ordering::SeqCst);
            let gp = dir.join(format!("g{n}.y"));
            let op = dir.join(format!("g{n}.y.rs"));
            std::fs::write(&gp, &src2).unwrap();
            // For a third of the mismatching cases an earlier, lenient build process
            // (error_on_conflicts(false)) has already left a module at the output path: the strict
            // build that follows must still fail (it must not be served from that module).
            if should_fail && (sr + rr) > 0 && n % 3 == 0 && !crate::exec::IN_FUZZ.load(Ordering::SeqCst) {
                let lp = dir.join(format!("g{n}.l"));
                std::fs::write(&lp, "%%\nx ;\n").unwrap();
                let spec = crate::ctstep::CtSpec {
                    grammar_path: gp.to_string_lossy().to_string(),
                    lexer_path: lp.to_string_lossy().to_string(),
                    parser_out: op.to_string_lossy().to_string(),
                    lexer_out: dir.join(format!("g{n}.l.rs")).to_string_lossy().to_string(),
                    yacckind: Some("Generic".into()),
                    error_on_conflicts: Some(false),
                    warnings_are_errors: Some(false),
                    show_warnings: Some(false),
                    strict_terms_in_lexer: Some(false),
                    ..Default::default()
                };
                match crate::ctstep::run_ctstep(&spec) {
                    Ok(r) if r.parser_ok => o.class("expect:after-lenient-build"),
                    Ok(r) => {
                        o.fail("wrong", "C03/expect/lenient-build-fails", format!("error_on_conflicts(false) build failed: {:?}\n{src2}", r.parser_error));
                        return o;
                    }
                    Err(e) => {
                        o.fail("harness", "C03/harness", e);
                        return o;
                    }
                }
                let _ = std::fs::remove_file(&lp);
                let _ = std::fs::remove_file(dir.join(format!("g{n}.l.rs")));
            }
            let r = CTParserBuilder::<DefaultLexerTypes<u32>>::new()
                .yacckind(YaccKind::Original(cfgrammar::yacc::YaccOriginalActionKind::GenericParseTree))
                .grammar_path(&gp)
                .output_path(&op)
                .show_warnings(false)
                .warnings_are_errors(false)
                .build();
            let failed = r.is_err();
            let _ = std::fs::remove_file(&gp);
            let _ = std::fs::remove_file(&op);
            o.class(if failed { "expect:build-err" } else { "expect:build-ok" });
            if failed != should_fail {
                o.fail(
                    "wrong",
                    if should_fail {
                        "C03/expect/build-succeeds-despite-mismatch"
                    } else {
                        "C03/expect/build-fails-despite-match"
                    },
                    format!(
                        "{sr} shift/reduce and {rr} reduce/reduce conflicts, %expect {:?} %expect-rr {:?}: build {}\n{src2}",
                        ag2.expect,
                        ag2.expect_rr,
                        if failed { format!("failed: {}", r.err().map(|e| e.to_string()).unwrap_or_default().chars().take(300).collect::<String>()) } else { "succeeded".into() }
                    ),
                );
                return o;
            }
        }
        o
    }
}

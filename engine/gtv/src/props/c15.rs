//! C15 - the same sources always produce the same grammar, table and generated code.

use crate::ctstep::{CtSpec, run_ctstep};
use crate::digest::{digest_grammar, digest_graph, digest_table};
use crate::exec::{Outcome, Prop, Tier, hash64};
use crate::genr::choices::Choices;
use crate::genr::yrender::YKind;
use crate::props::c10::{gen_case, gen_case_opts, yacc_kind};
use cfgrammar::yacc::YaccGrammar;
use lrtable::{Minimiser, from_yacc};
use serde::{Deserialize, Serialize};
use serde_json::Value;
use std::sync::atomic::{AtomicU64, Ordering};

pub struct C15;

#[derive(Serialize, Deserialize, Debug, Clone)]
pub struct Case {
    pub kind: YKind,
    pub text: String,
    pub lexer: String,
    /// also compare with digests taken in fresh processes
    pub cross_process: bool,
    /// also compare generated code of three separate build processes
    pub generated_code: bool,
    pub implicit_tokens: usize,
    /// lexer-only build with a user-supplied rule_ids_map in which names may share an id
    #[serde(default)]
    pub custom_ids: Option<Vec<(String, u32)>>,
    /// builder settings of the generated-code builds: (visibility, edition, recoverer, serialisation)
    #[serde(default)]
    pub settings: Option<(Option<String>, Option<u32>, Option<String>, Option<String>)>,
}

pub fn full_digest(kind: YKind, text: &str) -> Result<String, String> {
    let grm = YaccGrammar::<u32>::new_with_storaget(yacc_kind(kind), text).map_err(|e| format!("grammar rejected: {e:?}"))?;
    let mut d = digest_grammar(&grm);
    match from_yacc(&grm, Minimiser::Pager) {
        Ok((sg, st)) => {
            d.push_str(&digest_graph(&grm, &sg));
            d.push_str(&digest_table(&grm, &st, usize::from(sg.all_states_len()), false));
        }
        Err(e) => d.push_str(&format!("table error: {e}")),
    }
    Ok(d)
}

/// `gtv digest`: case JSON on stdin, "DIGEST <hash> <len>" on stdout.
pub fn digest_main() -> ! {
    use std::io::Read;
    let mut s = String::new();
    std::io::stdin().read_to_string(&mut s).unwrap();
    let c: Case = serde_json::from_str(&s).expect("case");
    match full_digest(c.kind, &c.text) {
        Ok(d) => println!("DIGEST {:016x} {}", hash64(&d), d.len()),
        Err(e) => println!("DIGEST-ERR {e}"),
    }
    std::process::exit(0)
}

fn child_digest(case: &Case) -> Result<String, String> {
    use std::io::Write;
    use std::process::{Command, Stdio};
    let exe = std::env::current_exe().map_err(|e| e.to_string())?;
    let mut child = Command::new(exe)
        .arg("digest")
        .stdin(Stdio::piped())
        .stdout(Stdio::piped())
        .stderr(Stdio::null())
        .spawn()
        .map_err(|e| e.to_string())?;
    child.stdin.take().unwrap().write_all(serde_json::to_string(case).unwrap().as_bytes()).map_err(|e| e.to_string())?;
    let out = child.wait_with_output().map_err(|e| e.to_string())?;
    Ok(String::from_utf8_lossy(&out.stdout).trim().to_string())
}

fn mask_timestamps(s: &str) -> String {
    s.lines()
        .filter(|l| !(l.starts_with("// lrlex build time") || l.starts_with("// lrpar build time") || l.contains("build time:")))
        .collect::<Vec<_>>()
        .join("\n")
}

/// A lexer whose rule names are exactly the grammar's tokens.
pub fn lexer_for(tokens: &[String]) -> String {
    let mut s = String::from("%%\n");
    for (i, t) in tokens.iter().enumerate() {
        let q = if t.contains('\'') { '"' } else { '\'' };
        s.push_str(&format!("k{i}z {q}{t}{q}\n"));
    }
    s.push_str("[ \\t\\n]+ ;\n");
    s
}

static UNIQ: AtomicU64 = AtomicU64::new(0);

impl Prop for C15 {
    fn id(&self) -> &'static str {
        "C15"
    }
    fn stream_len(&self, _tier: Tier) -> usize {
        1000
    }
    fn cases(&self, tier: Tier) -> u32 {
        tier.pick(100_000, 1_500_000)
    }
    fn watchdog_ms(&self) -> u64 {
        60_000
    }
    fn decode(&self, choices: &[u32], tier: Tier) -> Value {
        let mut ch = Choices::new(choices);
        // 1/4 from the LR(1)-not-LALR(1) stratum: Pager re-processes and splits states there
        let c = if ch.chance(1, 4) { gen_case_opts(&mut ch, tier, None, [0, 0, 1, 0]) } else { gen_case(&mut ch, tier) };
        let text = c.body().to_string();
        let cross_process = ch.chance(1, 25);
        let mut generated_code = c.kind != YKind::Eco && ch.chance(1, 40);
        let mut lexer = lexer_for(&c.ag.tokens);
        let mut custom_ids = None;
        if ch.chance(1, 60) {
            // the lexer by itself, token ids given by the user (as for a hand-written parser)
            let pool = ["INT", "ID", "PLUS", "While", "x9", "_id", "T0", "T1", "INT_HEX", "INT_OCT"];
            let n = ch.range(3, pool.len());
            let ids: Vec<(String, u32)> = (0..n).map(|i| (pool[i].to_string(), ch.pick(3) as u32)).collect();
            lexer = lexer_for(&ids.iter().map(|(n, _)| n.clone()).collect::<Vec<_>>());
            custom_ids = Some(ids);
            generated_code = true;
        } else if ch.chance(1, 60) {
            // ... or a lexer from the lexer generators (start states, targets, flags, escapes), its
            // named rules mapped onto few ids
            use crate::genr::lexspec::{RenderOpts, gen_al, render};
            let al = gen_al(&mut ch, 6);
            let o = RenderOpts::generate(&mut ch, al.rules.len(), true);
            lexer = render(&al, &o).0;
            let mut ids: Vec<(String, u32)> = vec![];
            for r in &al.rules {
                if let Some(n) = &r.name {
                    if !ids.iter().any(|(m, _)| m == n) {
                        ids.push((n.clone(), ch.pick(3) as u32));
                    }
                }
            }
            custom_ids = Some(ids);
            generated_code = true;
        }
        let settings = if generated_code && ch.chance(1, 2) {
            Some((
                ch.choose(&[None, Some("Public"), Some("PublicCrate"), Some("PublicIn:crate::a")]).map(|s| s.to_string()),
                *ch.choose(&[None, Some(2015u32), Some(2018), Some(2021)]),
                ch.choose(&[None, Some("None"), Some("CPCTPlus")]).map(|s| s.to_string()),
                ch.choose(&[None, Some("Fixed"), Some("Variable")]).map(|s| s.to_string()),
            ))
        } else {
            None
        };
        serde_json::to_value(Case {
            kind: c.kind,
            text,
            lexer,
            cross_process,
            generated_code,
            implicit_tokens: c.ag.implicit_tokens.len(),
            custom_ids,
            settings,
        })
        .unwrap()
    }
    fn rule(&self) -> String {
        "Grammars as C10, 1/4 of them from the LR(1)-not-LALR(1) stratum alone (all kinds; Eco with 1-3 %implicit_tokens and %avoid_insert sets whose maps are randomly seeded). Oracle: (a) the grammar + state graph + table are built 5 times in-process (fresh hash seeds per HashMap) and every build must give the same digest of all queries (state items with lookaheads per state number, edges, actions, gotos, conflicts as a sorted set); (b) for 1/25 of the cases 3 fresh processes must report the same digest; (c) for 1/40 of the non-Eco cases (and for 1/60 of all cases the lexer alone with a user-supplied rule_ids_map of 3-10 identifier-like names onto ids 0..2, so names share ids; for another 1/60 a lexer from the lexer generators of C09/C11 - start states, targets, flags, escapes - with its named rules mapped onto ids 0..2; half of these builds with non-default visibility / edition / recoverer / serialisation format) the compile-time builders are run in 3 separate processes on the same paths (output wiped in between) and the generated parser and lexer modules - and, for the builds with user-supplied ids, the token map module that CTTokenMapBuilder generates from the same ids - must be byte-identical after masking the build-time comment. (Thread part: see C13's batch.) Evaluation = one grammar. Non-trivial: >=2 implicit tokens, or >=8 states, or conflicts; distinct by hash(text).".into()
    }
    fn assumptions(&self) -> Vec<String> {
        vec![
            "order of the conflict lists and the representative chosen by core_reduces are unspecified and not compared".into(),
            "calling a generated parser from several threads at once is only stress-tested inside C13's batch binary; the harness does not control interleavings".into(),
        ]
    }
    fn required_classes(&self, _tier: Tier) -> Vec<&'static str> {
        vec!["implicit-tokens>=2", "cross-process", "generated-code", "generated-code:lexer-with-user-ids", "generated-code:non-default-settings", "generated-code:token-map-module", "kind:Eco", "with-conflicts"]
    }
    fn evaluate(&self, case: &Value) -> Outcome {
        let case: Case = serde_json::from_value(case.clone()).unwrap();
        let mut o = Outcome::new();
        o.evals = 1;
        o.class(&format!("kind:{:?}", case.kind));
        if case.implicit_tokens >= 2 {
            o.class("implicit-tokens>=2");
        }
        let first = match full_digest(case.kind, &case.text) {
            Ok(d) => d,
            Err(e) => {
                o.fail("harness", "C15/grammar-rejected", format!("{e}\n{}", case.text));
                return o;
            }
        };
        let nstates = first.lines().find(|l| l.starts_with("states=")).and_then(|l| l[7..].split(' ').next().and_then(|x| x.parse::<usize>().ok())).unwrap_or(0);
        let conflicts = first.contains("sr_len=");
        if conflicts {
            o.class("with-conflicts");
        }
        for k in 1..5 {
            let d = full_digest(case.kind, &case.text).unwrap_or_default();
            o.evals += 1;
            if d != first {
                let diff = first.lines().zip(d.lines()).find(|(a, b)| a != b);
                o.fail(
                    "wrong",
                    "C15/in-process/digest-differs",
                    format!("build {k} differs from build 0; first differing line: {:?}\n{}", diff, case.text),
                );
                return o;
            }
        }
        if case.cross_process {
            o.class("cross-process");
            let exp = format!("DIGEST {:016x} {}", hash64(&first), first.len());
            for k in 0..3 {
                match child_digest(&case) {
                    Ok(s) if s == exp => {}
                    Ok(s) => {
                        o.fail("wrong", "C15/cross-process/digest-differs", format!("process {k} reports {s}, this process {exp}\n{}", case.text));
                        return o;
                    }
                    Err(e) => {
                        o.fail("harness", "C15/harness", e);
                        return o;
                    }
                }
            }
        }
        if case.generated_code {
            o.class("generated-code");
            let root = std::env::var("GTV_ROOT").unwrap_or_else(|_| "/verif".into());
            let dir = std::path::PathBuf::from(root).join("work").join("c15").join(format!("{}-{}", std::process::id(), UNIQ.fetch_add(1, Ordering::SeqCst)));
            let _ = std::fs::create_dir_all(&dir);
            let gp = dir.join("g.y");
            let lp = dir.join("l.l");
            std::fs::write(&gp, &case.text).unwrap();
            std::fs::write(&lp, &case.lexer).unwrap();
            let (vis, edition, recoverer, serialisation) = case.settings.clone().unwrap_or_default();
            if case.settings.is_some() {
                o.class("generated-code:non-default-settings");
            }
            let spec = CtSpec {
                visibility: vis,
                edition,
                recoverer,
                serialisation,
                grammar_path: gp.to_string_lossy().to_string(),
                lexer_path: lp.to_string_lossy().to_string(),
                parser_out: dir.join("g.y.rs").to_string_lossy().to_string(),
                lexer_out: dir.join("l.l.rs").to_string_lossy().to_string(),
                yacckind: Some(format!("{:?}", case.kind)),
                warnings_are_errors: Some(false),
                error_on_conflicts: Some(false),
                lexer_only_rule_ids: case.custom_ids.clone(),
                token_map_mod: case.custom_ids.as_ref().map(|_| "tokmap".to_string()),
                token_map_dir: case.custom_ids.as_ref().map(|_| dir.to_string_lossy().to_string()),
                ..CtSpec::default()
            };
            let tm_path = dir.join("tokmap.rs");
            if case.custom_ids.is_some() {
                o.class("generated-code:lexer-with-user-ids");
            }
            let mut prev: Option<(String, Option<String>, Option<String>)> = None;
            let mut prev_tm: Option<(Option<String>, Option<String>)> = None;
            for k in 0..3 {
                let _ = std::fs::remove_file(&spec.parser_out);
                let _ = std::fs::remove_file(&spec.lexer_out);
                let _ = std::fs::remove_file(&tm_path);
                let r = match run_ctstep(&spec) {
                    Ok(r) => r,
                    Err(e) => {
                        o.fail("harness", "C15/harness", e);
                        let _ = std::fs::remove_dir_all(&dir);
                        return o;
                    }
                };
                if let Some(p) = &r.panicked {
                    // a panicking builder is C12/C13 business unless it differs between runs
                    o.class("builder-panicked");
                    let _ = p;
                }
                let pr = std::fs::read_to_string(&spec.parser_out).ok().map(|s| mask_timestamps(&s));
                let lr = std::fs::read_to_string(&spec.lexer_out).ok().map(|s| mask_timestamps(&s));
                let cur = (format!("{}{}{:?}", r.parser_ok, r.lexer_ok, r.panicked.is_some()), pr, lr);
                if let Some(p) = &prev {
                    if *p != cur {
                        let what = if p.0 != cur.0 {
                            "build outcome"
                        } else if p.1 != cur.1 {
                            "parser module"
                        } else {
                            "lexer module"
                        };
                        o.fail(
                            "wrong",
                            "C15/generated-code-differs",
                            format!("{what} of build process {k} differs from the previous process (same sources, same paths)\n{}", case.text),
                        );
                        let _ = std::fs::remove_dir_all(&dir);
                        return o;
                    }
                }
                if r.parser_ok {
                    o.class("generated-code:parser-built");
                }
                prev = Some(cur);
                if case.custom_ids.is_some() {
                    // the token map module CTTokenMapBuilder generates from the same ids
                    let cur_tm = (r.token_map.clone(), std::fs::read_to_string(&tm_path).ok().map(|s| mask_timestamps(&s)));
                    if cur_tm.0.as_deref() == Some("ok") {
                        o.class("generated-code:token-map-module");
                    }
                    if let Some(p) = &prev_tm {
                        if *p != cur_tm {
                            o.fail(
                                "wrong",
                                "C15/generated-code-differs/token-map",
                                format!("the token map module (or the outcome of CTTokenMapBuilder::build) of build process {k} differs from the previous process; ids {:?}", case.custom_ids),
                            );
                            let _ = std::fs::remove_dir_all(&dir);
                            return o;
                        }
                    }
                    prev_tm = Some(cur_tm);
                }
            }
            let _ = std::fs::remove_dir_all(&dir);
        }
        if case.implicit_tokens >= 2 || nstates >= 8 || conflicts {
            o.nontrivial.push(hash64(&case.text));
            o.sample = Some(serde_json::json!({"kind": format!("{:?}", case.kind), "text": case.text, "states": nstates}));
        }
        o
    }
}

//! C06 - repair sequences are the complete minimum-cost set, ranked as documented.

use crate::exec::{Outcome, Prop, Tier};
use crate::genr::grammar::render_simple;
use crate::props::recovery::*;
use serde_json::Value;

pub struct C06;

impl Prop for C06 {
    fn id(&self) -> &'static str {
        "C06"
    }
    fn fuzz_target(&self) -> Option<&'static str> {
        Some("fz_choices")
    }
    fn fuzz_runs(&self) -> u64 {
        40000
    }
    fn stream_len(&self, _tier: Tier) -> usize {
        600
    }
    fn cases(&self, tier: Tier) -> u32 {
        tier.pick(150_000, 2_500_000)
    }
    fn decode(&self, choices: &[u32], tier: Tier) -> Value {
        serde_json::to_value(decode_rcase(choices, tier, 8, 10, 3)).unwrap()
    }
    fn rule(&self) -> String {
        "Grammars/inputs/costs as C07 (inputs <=10 lexemes, 1-3 edits, <=5 tokens). Oracle: at every error (configuration taken from the reference driver) an exhaustive uniform-cost enumeration over {Insert t != end-of-input, Delete, Shift} under replay semantics, canonical form (no insert directly after a delete), success = three trailing shifts or acceptance, no successful proper prefix; node budget 60000 (exceeded => that error is not judged). Reported list: equal costs = least cost, set = all minimum-cost successes of maximal parse distance with trailing shifts stripped, no duplicates, no trailing shift, no end-of-input insert, %avoid_insert sequences last, lengths non-decreasing within a group; an error reported without any sequence although the search was not cut short must have no repair of cost <= 3x the cheapest token in the reference enumeration. Evaluation = one (grammar,input,costs). Non-trivial: >=2 expected sequences, or least cost >=2, or non-uniform costs with a multi-step sequence, or an %avoid_insert token in the expected set; distinct by hash(grammar,input,costs).".into()
    }
    fn assumptions(&self) -> Vec<String> {
        vec![
            "order among sequences of equal group and equal length is unspecified and not compared".into(),
            "parse distance used for ranking counts lexemes (acceptance and an error at end of input both count as all lexemes parsed)".into(),
        ]
    }
    fn required_classes(&self, _tier: Tier) -> Vec<&'static str> {
        vec!["c06:searched", "c06:nontrivial", "c06:>=2-sequences", "c06:avoid-insert-in-expect"]
    }
    fn evaluate(&self, case: &Value) -> Outcome {
        let mut o = Outcome::new();
        o.evals = 1;
        let rc: RCase = serde_json::from_value(case.clone()).unwrap();
        let ag = &rc.ag;
        let b = match setup(&mut o, ag, "C06") {
            Setup::Ready(b) => b,
            Setup::Done => return o,
        };
        let src = render_simple(ag);
        let ct = cost_table(&b, &rc.costs);
        o.evals = 0;
        for (input, layout) in rc.inputs.iter().zip(rc.layouts.iter()) {
            let p = match recovering_parse(&b, input, layout, &rc.costs) {
                Ok(Some(p)) => p,
                Ok(None) => {
                    o.class("cap-hit");
                    continue;
                }
                Err(e) => {
                    o.fail("harness", "C06/harness", e);
                    return o;
                }
            };
            if p.errs.is_empty() {
                continue;
            }
            o.evals += 1;
            let ctx = |m: &str| format!("{m}; input {input:?} costs {:?} avoid_insert {:?}\n{src}", rc.costs, ag.avoid_insert);
            let mut scratch = Outcome::new();
            let Some(sites) = check_c05(&mut scratch, ag, &b, input, layout, &p, false, &ctx) else {
                continue;
            };
            let before = o.classes.iter().filter(|c| *c == "c06:nontrivial").count();
            if !check_c06(&mut o, ag, &b, input, layout, &p, &sites, &ct, &ctx) {
                return o;
            }
            let after = o.classes.iter().filter(|c| *c == "c06:nontrivial").count();
            if after > before {
                o.nontrivial.push(key(ag, input, &rc.costs));
                if o.sample.is_none() {
                    o.sample = Some(serde_json::json!({
                        "grammar": src,
                        "input": input.iter().map(|t| ag.tokens[*t].clone()).collect::<Vec<_>>(),
                        "costs": rc.costs,
                        "avoid_insert": ag.avoid_insert,
                        "repairs_of_first_error": format!("{:?}", p.errs[0].repairs),
                    }));
                }
            }
        }
        if o.evals == 0 {
            o.evals = 1;
        }
        o
    }
}

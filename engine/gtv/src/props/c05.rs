//! C05 - every reported repair sequence repairs; parsing continues as if it were applied.

use crate::exec::{Outcome, Prop, Tier};
use crate::genr::grammar::render_simple;
use crate::props::recovery::*;
use serde_json::Value;

pub struct C05;

impl Prop for C05 {
    fn id(&self) -> &'static str {
        "C05"
    }
    fn fuzz_target(&self) -> Option<&'static str> {
        Some("fz_choices")
    }
    fn fuzz_runs(&self) -> u64 {
        40000
    }
    fn stream_len(&self, _tier: Tier) -> usize {
        600
    }
    fn cases(&self, tier: Tier) -> u32 {
        tier.pick(150_000, 2_500_000)
    }
    fn decode(&self, choices: &[u32], tier: Tier) -> Value {
        serde_json::to_value(decode_rcase(choices, tier, 8, 12, 4)).unwrap()
    }
    fn rule(&self) -> String {
        "Grammars/inputs/costs as C07 (inputs <=12 lexemes, 1-4 edits). Oracle: a reference LR driver over the public action/goto API follows the parse; at every error it takes the reported repair list, checks each sequence under replay semantics at the error point (Delete/Shift lexemes are the next input lexemes in order; every Insert/Shift is accepted by a plain LR step; afterwards a plain parse continues over >=3 lexemes or accepts), applies the first sequence (inserted tokens become zero-length faulty leaves at the start of the next real lexeme) and continues; the next reported error must be where the driver errors next and the returned tree must equal the driver's tree. Evaluation = one (grammar,input,costs). Non-trivial: an error with >=2 sequences, or a sequence of length >=2, or >=2 errors; distinct by hash(grammar,input,costs).".into()
    }
    fn assumptions(&self) -> Vec<String> {
        vec!["'applying a sequence at the error point' = replay from the parse stack at which the error entry was hit (reductions already performed under the offending lookahead stay)".into()]
    }
    fn required_classes(&self, _tier: Tier) -> Vec<&'static str> {
        vec!["c05:insert", "c05:delete", "c05:shift-in-the-middle", "c05:>=2-errors", "c05:>=2-sequences", "grammar-with-conflicts", "grammar-conflict-free"]
    }
    fn evaluate(&self, case: &Value) -> Outcome {
        let mut o = Outcome::new();
        o.evals = 1;
        let rc: RCase = serde_json::from_value(case.clone()).unwrap();
        let ag = &rc.ag;
        let b = match setup(&mut o, ag, "C05") {
            Setup::Ready(b) => b,
            Setup::Done => return o,
        };
        let src = render_simple(ag);
        o.evals = 0;
        for (input, layout) in rc.inputs.iter().zip(rc.layouts.iter()) {
            let p = match recovering_parse(&b, input, layout, &rc.costs) {
                Ok(Some(p)) => p,
                Ok(None) => {
                    o.class("cap-hit");
                    continue;
                }
                Err(e) => {
                    o.fail("harness", "C05/harness", e);
                    return o;
                }
            };
            if p.errs.is_empty() {
                continue;
            }
            o.evals += 1;
            let ctx = |m: &str| format!("{m}; input {input:?} costs {:?}\n{src}", rc.costs);
            if check_c05(&mut o, ag, &b, input, layout, &p, true, &ctx).is_none() {
                return o;
            }
            let nt = p.errs.len() >= 2 || p.errs.iter().any(|e| e.repairs.len() >= 2 || e.repairs.iter().any(|r| r.len() >= 2));
            if p.errs.len() >= 2 {
                o.class("c05:>=2-errors");
            }
            if p.errs.iter().any(|e| e.repairs.len() >= 2) {
                o.class("c05:>=2-sequences");
            }
            if nt {
                o.nontrivial.push(key(ag, input, &rc.costs));
                if o.sample.is_none() {
                    o.sample = Some(serde_json::json!({
                        "grammar": src,
                        "input": input.iter().map(|t| ag.tokens[*t].clone()).collect::<Vec<_>>(),
                        "costs": rc.costs,
                        "repairs_of_first_error": format!("{:?}", p.errs[0].repairs),
                    }));
                }
            }
        }
        if o.evals == 0 {
            o.evals = 1;
        }
        o
    }
}

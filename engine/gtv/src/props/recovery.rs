//! Shared machinery of the recovery properties C05, C06, C07.

use crate::exec::{Outcome, Tier, hash64};
use crate::genr::choices::Choices;
use crate::genr::grammar::{AG, GenOpts, gen_grammar, render_simple};
use crate::genr::inputs::{gen_input, gen_sentence, mutate_input};
use crate::harness::{
    BuildErr, Built, EOF_TOK, ITree, Layout, PErr, RECOVERY_CAP, build, error_index,
    parse_tree, parse_tree_rec, table_loop_witness,
};
use crate::recov::{self, Mv, Stack};
use cfgrammar::TIdx;
use lrpar::RecoveryKind;
use lrtable::Action;
use serde::{Deserialize, Serialize};
use std::collections::BTreeSet;

#[derive(Serialize, Deserialize, Debug, Clone)]
pub struct RCase {
    pub ag: AG,
    pub inputs: Vec<Vec<usize>>,
    pub layouts: Vec<Layout>,
    /// cost per AG token (1..=255)
    pub costs: Vec<u8>,
}

pub fn ropts(tier: Tier) -> GenOpts {
    GenOpts {
        max_rules: tier.pick(4, 5),
        max_prods: 3,
        max_syms: 4,
        max_tokens: 4,
        allow_cycles: false,
        allow_unproductive: false,
        strata: [5, 2, 1, 3],
        precedence: true,
        avoid_insert: true,
        pad_tokens: false,
    }
}

pub fn decode_rcase(choices: &[u32], tier: Tier, ninputs: usize, max_len: usize, max_edits: usize) -> RCase {
    let mut ch = Choices::new(choices);
    let ag = gen_grammar(&mut ch, &ropts(tier));
    let mode = ch.weighted(&[3, 2, 2]);
    let costs: Vec<u8> = (0..ag.tokens.len())
        .map(|_| match mode {
            0 => 1,
            1 => 1 + ch.pick(4) as u8,
            _ => 1 + ch.pick(255) as u8,
        })
        .collect();
    let mut inputs = vec![];
    let mut layouts = vec![];
    for k in 0..ninputs {
        // long-tail stratum: more than 250 valid lexemes after an early error, so that the
        // "probe the continuation for at most 250 lexemes" logic of the ranking is exercised
        let long_tail = max_edits <= 3 && k == 0 && ch.chance(1, 6);
        let inp = if long_tail {
            let mut s = gen_sentence(&mut ch, &ag, 290).unwrap_or_default();
            if s.len() > 6 {
                let pos = ch.pick(4);
                match ch.pick(3) {
                    0 => {
                        s.remove(pos);
                    }
                    1 => s.insert(pos, ch.pick(ag.tokens.len())),
                    _ => s[pos] = ch.pick(ag.tokens.len()),
                }
            }
            s
        } else if ch.chance(3, 4) {
            let mut s = gen_sentence(&mut ch, &ag, max_len).unwrap_or_default();
            let e = ch.range(1, max_edits);
            mutate_input(&mut ch, &ag, &mut s, e);
            s.truncate(max_len + 2);
            s
        } else {
            gen_input(&mut ch, &ag, max_len, &[1, 2, 2])
        };
        layouts.push(Layout::generate(&mut ch, inp.len()));
        inputs.push(inp);
    }
    RCase {
        ag,
        inputs,
        layouts,
        costs,
    }
}

pub struct Ctx<'a> {
    pub ag: &'a AG,
    pub b: &'a Built<u32>,
    pub cost_by_tidx: Vec<u8>,
    pub src: String,
}

pub enum Setup {
    Ready(Box<Built<u32>>),
    Done,
}

/// Build + domain restriction shared by the three properties.
pub fn setup(o: &mut Outcome, ag: &AG, id: &str) -> Setup {
    let b = match build(ag) {
        Ok(b) => b,
        Err(BuildErr::Grammar(e)) => {
            o.fail("harness", format!("{id}/grammar-rejected"), format!("{e}\n{}", render_simple(ag)));
            return Setup::Done;
        }
        Err(BuildErr::Table(_)) => {
            o.discard("accept-reduce-conflict");
            return Setup::Done;
        }
    };
    if (b.st.conflicts().is_some() || ag.has_precedence()) && table_loop_witness(&b).is_some() {
        o.class("excluded:nonconsuming-reduce-loop");
        o.discard("nonconsuming-reduce-loop");
        return Setup::Done;
    }
    o.class(if b.st.conflicts().is_some() { "grammar-with-conflicts" } else { "grammar-conflict-free" });
    Setup::Ready(Box::new(b))
}

pub fn cost_table(b: &Built<u32>, costs: &[u8]) -> Vec<u8> {
    let mut v = vec![1u8; usize::from(b.grm.tokens_len())];
    for (t, tidx) in b.tok.iter().enumerate() {
        v[usize::from(*tidx)] = costs[t];
    }
    v
}

pub struct Parsed {
    pub tree: Option<ITree>,
    pub errs: Vec<PErr>,
}

/// Recovering parse under the hooks. `None` = the expansion cap fired (do not judge).
pub fn recovering_parse(
    b: &Built<u32>,
    input: &[usize],
    layout: &Layout,
    costs: &[u8],
) -> Result<Option<Parsed>, String> {
    let (tree, errs, hit) = parse_tree_rec(b, input, layout, Some(costs), RECOVERY_CAP)?;
    if hit {
        return Ok(None);
    }
    Ok(Some(Parsed { tree, errs }))
}

// ---------------------------------------------------------------------------------------------
// C07: invariants over (value, errors)

pub fn check_c07(
    o: &mut Outcome,
    b: &Built<u32>,
    input: &[usize],
    layout: &Layout,
    p: &Parsed,
    ctx: &dyn Fn(&str) -> String,
) -> bool {
    let n = input.len();
    let mut idxs = vec![];
    for (k, e) in p.errs.iter().enumerate() {
        match error_index(b, e, input, layout) {
            Ok(i) => idxs.push(i),
            Err(m) => {
                o.fail("wrong", "C07/error-lexeme", ctx(&format!("error {k}: {m}")));
                return false;
            }
        }
    }
    for w in idxs.windows(2) {
        if w[1] <= w[0] {
            o.fail(
                "wrong",
                "C07/errors-not-increasing",
                ctx(&format!("error lexeme indices {idxs:?} are not strictly increasing")),
            );
            return false;
        }
        if w[1] < (w[0] + 3).min(n) {
            o.fail(
                "wrong",
                "C07/errors-too-close",
                ctx(&format!("error lexeme indices {idxs:?}: a later error lies fewer than three lexemes after the previous one")),
            );
            return false;
        }
    }
    for (k, e) in p.errs.iter().enumerate() {
        if e.repairs.is_empty() && k + 1 != p.errs.len() {
            o.fail("wrong", "C07/unrepaired-error-not-last", ctx(&format!("error {k} of {} has no repairs", p.errs.len())));
            return false;
        }
    }
    let all_repaired = p.errs.iter().all(|e| !e.repairs.is_empty());
    if p.tree.is_some() != all_repaired {
        o.fail(
            "wrong",
            "C07/value-vs-repairs",
            ctx(&format!("value is_some = {}, every error has repairs = {}", p.tree.is_some(), all_repaired)),
        );
        return false;
    }
    if p.tree.is_some() && p.errs.is_empty() {
        match parse_tree(b, input, layout, RecoveryKind::None, None) {
            Ok((t, e)) => {
                if t.is_none() || !e.is_empty() {
                    o.fail("wrong", "C07/clean-result-but-not-accepted", ctx("value and no errors, but a recovery-off parse rejects the input"));
                    return false;
                }
                if t != p.tree {
                    o.fail("wrong", "C07/clean-result-differs", ctx("value without errors differs from the recovery-off tree"));
                    return false;
                }
            }
            Err(m) => {
                o.fail("harness", "C07/harness", m);
                return false;
            }
        }
    }
    if idxs.len() >= 2 {
        o.class("c07:>=2-errors");
    }
    if idxs.last() == Some(&n) {
        o.class("c07:error-at-eof");
    }
    if p.errs.last().map(|e| e.repairs.is_empty()).unwrap_or(false) {
        o.class("c07:last-error-unrepaired");
    }
    true
}

pub fn c07_nontrivial(p: &Parsed, input: &[usize], b: &Built<u32>) -> bool {
    let eof = usize::from(b.grm.eof_token_idx());
    p.errs.len() >= 2
        || p.errs.iter().any(|e| e.tok_id == eof)
        || p.errs.last().map(|e| e.repairs.is_empty()).unwrap_or(false) && !input.is_empty()
}

// ---------------------------------------------------------------------------------------------
// C05: reference driver with replay semantics

pub struct ErrorSite {
    pub stack: Stack,
    pub index: usize,
}

/// Drives a plain LR parse over the public table API; at each error takes the implementation's
/// reported repairs, validates every sequence under replay semantics and continues with the
/// first. Returns the error sites (stack and index at each error) for C06.
pub fn check_c05(
    o: &mut Outcome,
    ag: &AG,
    b: &Built<u32>,
    input: &[usize],
    layout: &Layout,
    p: &Parsed,
    judge: bool,
    ctx: &dyn Fn(&str) -> String,
) -> Option<Vec<ErrorSite>> {
    let spans = layout.spans();
    let starts: Vec<usize> = spans.iter().map(|(s, _)| *s).collect();
    let end_pos = spans.last().map(|(s, l)| s + l).unwrap_or(0);
    let mut stack: Stack = vec![b.st.start_state()];
    let mut trees: Vec<ITree> = vec![];
    let mut i = 0usize;
    let mut k = 0usize; // next implementation error
    let mut sites = vec![];
    let _ = ag;
    // one plain LR step with tree building; returns false on error entry
    fn step(
        b: &Built<u32>,
        stack: &mut Stack,
        trees: &mut Vec<ITree>,
        tidx: TIdx<u32>,
        leaf: ITree,
    ) -> Result<bool, ()> {
        for _ in 0..100_000 {
            match b.st.action(*stack.last().unwrap(), tidx) {
                Action::Shift(s) => {
                    stack.push(s);
                    trees.push(leaf);
                    return Ok(true);
                }
                Action::Reduce(pidx) => {
                    let n = b.grm.prod(pidx).len();
                    let kids = trees.split_off(trees.len() - n);
                    stack.truncate(stack.len() - n);
                    let ridx = b.grm.prod_to_rule(pidx);
                    trees.push(ITree::Node {
                        rule: b.ag_rule(ridx),
                        kids,
                    });
                    let g = b.st.goto(*stack.last().unwrap(), ridx).unwrap();
                    stack.push(g);
                }
                Action::Accept => return Err(()),
                Action::Error => return Ok(false),
            }
        }
        Ok(false)
    }
    loop {
        // try to advance over the next real lexeme / accept
        if i < input.len() {
            let leaf = ITree::Leaf {
                tok: input[i],
                start: spans[i].0,
                len: spans[i].1,
                faulty: false,
            };
            let mut st2 = stack.clone();
            let mut tr2 = trees.clone();
            match step(b, &mut st2, &mut tr2, b.tok[input[i]], leaf) {
                Ok(true) => {
                    stack = st2;
                    trees = tr2;
                    i += 1;
                    continue;
                }
                Ok(false) => {
                    // reductions performed before the error entry stay on the stack
                    stack = st2;
                    trees = tr2;
                }
                Err(()) => unreachable!(),
            }
        } else {
            // end of input: reductions then accept?
            let eof = b.grm.eof_token_idx();
            let mut accepted = false;
            for _ in 0..100_000 {
                match b.st.action(*stack.last().unwrap(), eof) {
                    Action::Accept => {
                        accepted = true;
                        break;
                    }
                    Action::Reduce(pidx) => {
                        let n = b.grm.prod(pidx).len();
                        let kids = trees.split_off(trees.len() - n);
                        stack.truncate(stack.len() - n);
                        let ridx = b.grm.prod_to_rule(pidx);
                        trees.push(ITree::Node {
                            rule: b.ag_rule(ridx),
                            kids,
                        });
                        let g = b.st.goto(*stack.last().unwrap(), ridx).unwrap();
                        stack.push(g);
                    }
                    _ => break,
                }
            }
            if accepted {
                if !judge {
                    return Some(sites);
                }
                if k != p.errs.len() {
                    o.fail(
                        "wrong",
                        "C05/continuation/extra-errors",
                        ctx(&format!("with the first repair of each error applied the parse accepts after {k} errors, but {} errors were reported", p.errs.len())),
                    );
                    return None;
                }
                let mine = trees.pop();
                if p.tree != mine {
                    o.fail(
                        "wrong",
                        "C05/continuation/tree-differs",
                        ctx(&format!("returned tree {:?}\nexpected (first repair of each error applied) {:?}", p.tree, mine)),
                    );
                    return None;
                }
                return Some(sites);
            }
        }
        // error at lexeme i
        if k >= p.errs.len() {
            if judge {
                o.fail(
                    "wrong",
                    "C05/continuation/missing-error",
                    ctx(&format!("replaying the reported repairs, a plain parse errors at lexeme {i} but only {k} errors were reported")),
                );
                return None;
            }
            return Some(sites);
        }
        let e = &p.errs[k];
        match error_index(b, e, input, layout) {
            Ok(ei) if ei == i => {}
            Ok(ei) => {
                if judge {
                    o.fail(
                        "wrong",
                        "C05/continuation/error-position",
                        ctx(&format!("error {k} reported at lexeme {ei}; parsing with the first repair of the earlier errors applied errors at lexeme {i}")),
                    );
                    return None;
                }
                return Some(sites);
            }
            Err(m) => {
                if judge {
                    o.fail("wrong", "C05/error-lexeme", ctx(&format!("error {k}: {m}")));
                    return None;
                }
                return Some(sites);
            }
        }
        sites.push(ErrorSite {
            stack: stack.clone(),
            index: i,
        });
        if e.repairs.is_empty() {
            if judge && (p.tree.is_some() || k + 1 != p.errs.len()) {
                o.fail("wrong", "C05/continuation/after-unrepaired-error", ctx(&format!("error {k} has no repairs but the parse went on")));
                return None;
            }
            return Some(sites);
        }
        // validity of every reported sequence
        if judge {
            for (ri, seq) in e.repairs.iter().enumerate() {
                let moves = match recov::to_moves(b, seq, &starts, i) {
                    Ok(m) => m,
                    Err(m) => {
                        o.fail("wrong", "C05/ill-formed-sequence", ctx(&format!("error {k} sequence {ri} {seq:?}: {m}")));
                        return None;
                    }
                };
                match recov::replay(b, &stack, input, i, &moves) {
                    None => {
                        o.fail(
                            "wrong",
                            "C05/sequence-does-not-apply",
                            ctx(&format!("error {k} at lexeme {i}: sequence {ri} {seq:?} cannot be applied at the error point (an insert or shift is refused by a plain LR parse)")),
                        );
                        return None;
                    }
                    Some((st, j)) => {
                        if !recov::repairs_ok(b, &st, input, j) {
                            o.fail(
                                "wrong",
                                "C05/sequence-does-not-repair",
                                ctx(&format!("error {k} at lexeme {i}: after sequence {ri} {seq:?} a plain parse neither continues over the next three lexemes nor accepts")),
                            );
                            return None;
                        }
                    }
                }
                if moves.iter().any(|m| matches!(m, Mv::Ins(_))) {
                    o.class("c05:insert");
                }
                if moves.iter().any(|m| matches!(m, Mv::Del)) {
                    o.class("c05:delete");
                }
                if moves.len() >= 2 && moves[..moves.len() - 1].iter().any(|m| matches!(m, Mv::Shf)) {
                    o.class("c05:shift-in-the-middle");
                }
            }
        }
        // apply the first sequence with tree building
        let first = &e.repairs[0];
        let moves = match recov::to_moves(b, first, &starts, i) {
            Ok(m) => m,
            Err(_) => return Some(sites),
        };
        for m in moves {
            match m {
                Mv::Ins(t) => {
                    let pos = if i < input.len() { spans[i].0 } else { end_pos };
                    let leaf = ITree::Leaf {
                        tok: b.ag_token(TIdx(t)).unwrap_or(EOF_TOK),
                        start: pos,
                        len: 0,
                        faulty: true,
                    };
                    match step(b, &mut stack, &mut trees, TIdx(t), leaf) {
                        Ok(true) => {}
                        _ => return Some(sites), // already reported above when judging
                    }
                }
                Mv::Del => i += 1,
                Mv::Shf => {
                    let leaf = ITree::Leaf {
                        tok: input[i],
                        start: spans[i].0,
                        len: spans[i].1,
                        faulty: false,
                    };
                    match step(b, &mut stack, &mut trees, b.tok[input[i]], leaf) {
                        Ok(true) => i += 1,
                        _ => return Some(sites),
                    }
                }
            }
        }
        k += 1;
    }
}

// ---------------------------------------------------------------------------------------------
// C06: complete minimum-cost set, ranked as documented

pub fn check_c06(
    o: &mut Outcome,
    ag: &AG,
    b: &Built<u32>,
    input: &[usize],
    layout: &Layout,
    p: &Parsed,
    sites: &[ErrorSite],
    cost_by_tidx: &[u8],
    ctx: &dyn Fn(&str) -> String,
) -> bool {
    let starts: Vec<usize> = layout.spans().iter().map(|(s, _)| *s).collect();
    let eof = u32::from(b.grm.eof_token_idx());
    let mut nontrivial = false;
    for (k, site) in sites.iter().enumerate() {
        let Some(e) = p.errs.get(k) else { break };
        if e.repairs.is_empty() {
            // nothing reported although the search was not cut short (a search that hits the
            // expansion cap never gets here): then no repair may exist; the reference looks for
            // one of small cost (three times the cheapest token, 60000 nodes at most)
            let bound = 3 * cost_by_tidx.iter().copied().min().unwrap_or(1) as u64;
            if let Some(res) = recov::repair_search(b, &site.stack, input, site.index, cost_by_tidx, bound, 60_000) {
                if let Some(x) = res.expect.iter().next() {
                    o.fail(
                        "wrong",
                        "C06/no-repair-reported-but-one-exists",
                        ctx(&format!("error {k} at lexeme {}: no repair sequence reported although the search was not cut short; a valid repair of cost {} exists, e.g. {:?}", site.index, res.cstar, x)),
                    );
                    return false;
                }
            }
            o.class("c06:no-repairs-reported");
            continue;
        }
        let mut lists: Vec<Vec<Mv>> = vec![];
        for seq in &e.repairs {
            match recov::to_moves(b, seq, &starts, site.index) {
                Ok(m) => lists.push(m),
                Err(_) => return true, // C05's business
            }
        }
        // structural clauses
        for (ri, m) in lists.iter().enumerate() {
            if matches!(m.last(), Some(Mv::Shf)) {
                o.fail("wrong", "C06/ends-in-shift", ctx(&format!("error {k} sequence {ri} {:?} ends in a shift", e.repairs[ri])));
                return false;
            }
            if m.iter().any(|x| *x == Mv::Ins(eof)) {
                o.fail("wrong", "C06/inserts-eof", ctx(&format!("error {k} sequence {ri} inserts the end-of-input token")));
                return false;
            }
            if m.is_empty() {
                o.fail("wrong", "C06/empty-sequence", ctx(&format!("error {k} sequence {ri} is empty")));
                return false;
            }
        }
        let set: BTreeSet<Vec<Mv>> = lists.iter().cloned().collect();
        if set.len() != lists.len() {
            o.fail("wrong", "C06/duplicate-sequence", ctx(&format!("error {k}: repairs {:?} contain a duplicate", e.repairs)));
            return false;
        }
        let avoid = |m: &Vec<Mv>| {
            m.iter().any(|x| match x {
                Mv::Ins(t) => b
                    .ag_token(TIdx(*t))
                    .map(|a| ag.avoid_insert.contains(&a))
                    .unwrap_or(false),
                _ => false,
            })
        };
        let flags: Vec<bool> = lists.iter().map(avoid).collect();
        if flags.windows(2).any(|w| w[0] && !w[1]) {
            o.fail("wrong", "C06/avoid-insert-order", ctx(&format!("error {k}: a sequence inserting an %avoid_insert token comes before one that does not: {:?}", e.repairs)));
            return false;
        }
        for w in 0..lists.len().saturating_sub(1) {
            if flags[w] == flags[w + 1] && lists[w].len() > lists[w + 1].len() {
                o.fail("wrong", "C06/length-order", ctx(&format!("error {k}: within a group a longer sequence comes before a shorter one: {:?}", e.repairs)));
                return false;
            }
        }
        let costs: Vec<u64> = lists
            .iter()
            .map(|m| recov::cost_of(m, input, site.index, cost_by_tidx, b))
            .collect();
        if costs.iter().any(|c| *c != costs[0]) {
            o.fail("wrong", "C06/unequal-costs", ctx(&format!("error {k}: reported sequences have costs {costs:?}: {:?}", e.repairs)));
            return false;
        }
        // exhaustive reference search up to the reported cost
        if input.len() - site.index > 250 {
            o.class("c06:long-tail");
        }
        let Some(res) = recov::repair_search(b, &site.stack, input, site.index, cost_by_tidx, costs[0], 60_000) else {
            o.class("c06:oracle-budget-or-none");
            continue;
        };
        o.class("c06:searched");
        if res.cstar < costs[0] {
            o.fail(
                "wrong",
                "C06/cheaper-repair-exists",
                ctx(&format!("error {k} at lexeme {}: reported repairs cost {}, but a valid repair of cost {} exists, e.g. {:?}", site.index, costs[0], res.cstar, res.expect.iter().next())),
            );
            return false;
        }
        // every repair that continues as far as the best one (followed to the end of the input)
        // must be there; nothing may be there that does not continue as far as the best one when
        // probed for 250 lexemes from the error (the documented approximation)
        if !(res.expect_uncapped.is_subset(&set) && set.is_subset(&res.expect)) {
            let missing: Vec<_> = res.expect_uncapped.difference(&set).take(3).collect();
            let extra: Vec<_> = set.difference(&res.expect).take(3).collect();
            let sig = if !extra.is_empty() && extra.iter().all(|x| !res.all_min.contains(*x)) {
                "C06/reported-not-a-minimum-cost-repair"
            } else if !extra.is_empty() {
                "C06/reported-lower-ranked"
            } else {
                "C06/minimum-cost-repair-missing"
            };
            o.fail(
                "wrong",
                sig,
                ctx(&format!(
                    "error {k} at lexeme {} (cost {}): reported {:?}; missing {missing:?}; not expected {extra:?} (Ins = implementation token index)",
                    site.index, costs[0], e.repairs
                )),
            );
            return false;
        }
        if res.expect.len() >= 2
            || res.cstar >= 2
            || res.expect.iter().any(avoid)
            || (cost_by_tidx.iter().any(|c| *c != cost_by_tidx[0]) && res.expect.iter().any(|m| m.len() >= 2))
        {
            nontrivial = true;
        }
        if res.expect.iter().any(avoid) {
            o.class("c06:avoid-insert-in-expect");
        }
        if res.expect.len() >= 2 {
            o.class("c06:>=2-sequences");
        }
    }
    if nontrivial {
        o.class("c06:nontrivial");
    }
    true
}

pub fn key(ag: &AG, input: &[usize], costs: &[u8]) -> u64 {
    hash64(&format!("{}{:?}{:?}", ag.canonical_string(), input, costs))
}

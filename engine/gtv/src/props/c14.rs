//! C14 - serialised grammars and tables come back observationally identical.

use crate::digest::{digest_grammar, digest_table};
use crate::exec::{Outcome, Prop, Tier, catch, hash64};
use crate::genr::choices::Choices;
use crate::genr::inputs::gen_input;
use crate::genr::yrender::YKind;
use crate::harness::{Layout, parse_digest};
use crate::props::c10::{gen_case, gen_case_with, yacc_kind};
use cfgrammar::yacc::YaccGrammar;
use lrpar::ctbuilder::wincode;
use lrtable::{Minimiser, from_yacc};
use serde::{Deserialize, Serialize};
use serde_json::Value;

pub struct C14;

#[derive(Serialize, Deserialize, Debug, Clone)]
pub struct Case {
    pub kind: YKind,
    pub text: String,
    /// inputs as token *names*
    pub inputs: Vec<Vec<String>>,
    pub layouts: Vec<Layout>,
    pub features: usize,
}

macro_rules! roundtrip {
    ($t:ty, $case:expr, $o:expr) => {{
        let case: &Case = $case;
        let grm = match YaccGrammar::<$t>::new_with_storaget(yacc_kind(case.kind), &case.text) {
            Ok(g) => g,
            Err(e) => {
                $o.fail("harness", "C14/grammar-rejected", format!("{:?}\n{}", e, case.text));
                return;
            }
        };
        let (sg, st) = match from_yacc(&grm, Minimiser::Pager) {
            Ok(x) => x,
            Err(_) => {
                $o.discard("accept-reduce-conflict");
                return;
            }
        };
        let nstates = usize::from(sg.all_states_len());
        // parse comparisons only where the plain LR loop cannot reduce forever
        let parse_ok = crate::harness::table_loop_witness_raw(&grm, &st, nstates).is_none();
        if !parse_ok {
            $o.class("no-parse-comparison:nonconsuming-reduce-loop");
        }
        let dg = digest_grammar(&grm);
        let dt = digest_table(&grm, &st, nstates, true);
        if st.conflicts().is_some() {
            $o.class("with-conflicts");
        }
        let inputs: Vec<Vec<usize>> = case
            .inputs
            .iter()
            .map(|i| i.iter().filter_map(|n| grm.token_idx(n).map(usize::from)).collect())
            .collect();
        for fixed in [true, false] {
            let r = catch(|| {
                if fixed {
                    let cfg = wincode::config::Configuration::default().with_fixint_encoding();
                    let gb = wincode::config::serialize(&grm, cfg).map_err(|e| e.to_string())?;
                    let sb = wincode::config::serialize(&st, cfg).map_err(|e| e.to_string())?;
                    Ok::<_, String>((lrpar::ctbuilder::_reconstitute::<_, $t>(&gb, &sb, cfg), gb.len(), sb.len()))
                } else {
                    let cfg = wincode::config::Configuration::default().with_varint_encoding();
                    let gb = wincode::config::serialize(&grm, cfg).map_err(|e| e.to_string())?;
                    let sb = wincode::config::serialize(&st, cfg).map_err(|e| e.to_string())?;
                    Ok::<_, String>((lrpar::ctbuilder::_reconstitute::<_, $t>(&gb, &sb, cfg), gb.len(), sb.len()))
                }
            });
            let fmt = if fixed { "fixed" } else { "variable" };
            let pd = match r {
                Err(p) => {
                    $o.fail("panic", format!("C14/{}/{}", fmt, p.signature()), format!("{} ({}, {})\n{}", p.detail(), fmt, stringify!($t), case.text));
                    return;
                }
                Ok(Err(e)) => {
                    $o.fail("wrong", format!("C14/{}/serialise-error", fmt), format!("{e}\n{}", case.text));
                    return;
                }
                Ok(Ok((pd, _, _))) => pd,
            };
            $o.evals += 1;
            let dg2 = digest_grammar(pd.grm());
            if dg2 != dg {
                let diff = dg.lines().zip(dg2.lines()).find(|(a, b)| a != b);
                $o.fail("wrong", format!("C14/{}/grammar-differs", fmt), format!("storage {} first differing line: {:?}\n{}", stringify!($t), diff, case.text));
                return;
            }
            let dt2 = digest_table(pd.grm(), pd.stable(), nstates, true);
            if dt2 != dt {
                let diff = dt.lines().zip(dt2.lines()).find(|(a, b)| a != b);
                $o.fail("wrong", format!("C14/{}/table-differs", fmt), format!("storage {} first differing line: {:?}\n{}", stringify!($t), diff, case.text));
                return;
            }
            for (inp, lay) in inputs.iter().zip(case.layouts.iter()) {
                if inp.len() != lay.cells.len() || !parse_ok {
                    continue;
                }
                for rec in [false, true] {
                    let a = parse_digest(&grm, &st, inp, lay, rec);
                    let b = parse_digest(pd.grm(), pd.stable(), inp, lay, rec);
                    if a != b && a != "cap-hit" && b != "cap-hit" {
                        $o.fail("wrong", format!("C14/{}/parse-differs", fmt), format!("input {:?} recovery {}: original {} vs reconstituted {}\n{}", inp, rec, a, b, case.text));
                        return;
                    }
                }
            }
        }
    }};
}

fn fits_u8(case: &Case) -> bool {
    let Ok(grm) = YaccGrammar::<u32>::new_with_storaget(yacc_kind(case.kind), &case.text) else {
        return false;
    };
    let Ok((sg, _)) = from_yacc(&grm, Minimiser::Pager) else {
        return false;
    };
    let max_syms = grm.iter_pidxs().map(|p| grm.prod(p).len()).max().unwrap_or(0);
    let lim = 250;
    usize::from(sg.all_states_len()) <= lim
        && usize::from(grm.rules_len()) <= lim
        && usize::from(grm.prods_len()) <= lim
        && usize::from(grm.tokens_len()) <= lim
        && max_syms <= lim
}

fn run_u8(case: &Case, o: &mut Outcome) {
    roundtrip!(u8, case, o)
}
fn run_u16(case: &Case, o: &mut Outcome) {
    roundtrip!(u16, case, o)
}
fn run_u32(case: &Case, o: &mut Outcome) {
    roundtrip!(u32, case, o)
}

impl Prop for C14 {
    fn id(&self) -> &'static str {
        "C14"
    }
    fn fuzz_target(&self) -> Option<&'static str> {
        Some("fz_choices")
    }
    fn fuzz_runs(&self) -> u64 {
        15000
    }
    fn stream_len(&self, _tier: Tier) -> usize {
        1100
    }
    fn cases(&self, tier: Tier) -> u32 {
        tier.pick(8_000, 200_000)
    }
    fn decode(&self, choices: &[u32], tier: Tier) -> Value {
        let mut ch = Choices::new(choices);
        // 1/12: a size dimension blown up to the neighbourhood of 255 (length prefixes, counts)
        let c = if ch.chance(1, 12) { gen_case_with(&mut ch, tier, Some(crate::props::c20::inflate)) } else { gen_case(&mut ch, tier) };
        let mut inputs = vec![];
        let mut layouts = vec![];
        for _ in 0..5 {
            let inp = gen_input(&mut ch, &c.ag, 8, &[3, 3, 1]);
            layouts.push(Layout::generate(&mut ch, inp.len()));
            inputs.push(inp.iter().map(|t| c.ag.tokens[*t].clone()).collect());
        }
        let ag = &c.ag;
        let features = [!ag.epp.is_empty(), !ag.avoid_insert.is_empty(), ag.expect.is_some(), ag.expect_rr.is_some(), !ag.precs.is_empty(), !ag.implicit_tokens.is_empty(), ag.rules.iter().any(|r| r.prods.iter().any(|p| p.action.is_some())), c.text.contains("%parse-param")]
            .iter()
            .filter(|x| **x)
            .count();
        serde_json::to_value(Case {
            kind: if c.entry == 1 { c.kind } else { c.kind },
            text: c.body().to_string(),
            inputs,
            layouts,
            features,
        })
        .unwrap()
    }
    fn rule(&self) -> String {
        "Grammars as C10, 1/12 of them with one or two size dimensions inflated to 246..261 as in C20 (all optional declarations independently present or absent, non-ASCII token names and action text, all yacc kinds incl. Eco) x {fixed, variable} integer encoding x {u8, u16, u32}; 5 inputs each. Oracle: serialise grammar and table with the two wincode configurations ctbuilder uses, lrpar::ctbuilder::_reconstitute, then digest(original) == digest(reconstituted) over every public grammar and table query (conflict lists in order) and equal parse results (recovery off: tree and errors; recovery on: first error and its repair set). Evaluation = one (grammar, storage width, format). Non-trivial: grammar uses >=3 optional features and its table has conflicts or precedence; distinct by hash(text).".into()
    }
    fn assumptions(&self) -> Vec<String> {
        vec!["core_reduces compared through (rule,length) pairs (the representative is documented as arbitrary)".into()]
    }
    fn required_classes(&self, _tier: Tier) -> Vec<&'static str> {
        vec!["with-conflicts", "features>=3", "kind:Eco", "kind:Grmtools"]
    }
    fn evaluate(&self, case: &Value) -> Outcome {
        let case: Case = serde_json::from_value(case.clone()).unwrap();
        let mut o = Outcome::new();
        o.class(&format!("kind:{:?}", case.kind));
        if case.features >= 3 {
            o.class("features>=3");
        }
        run_u32(&case, &mut o);
        if o.failed() {
            return o;
        }
        if !matches!(o.verdict, crate::exec::Verdict::Discard { .. }) {
            run_u16(&case, &mut o);
            if o.failed() {
                return o;
            }
            // the narrowest width only where the documented 'StorageT is not big enough' refusals
            // cannot apply (sizes taken from the u32 build)
            if fits_u8(&case) {
                run_u8(&case, &mut o);
            } else {
                o.class("u8-too-narrow");
            }
        }
        if o.evals == 0 {
            o.evals = 1;
        }
        if case.features >= 3 && o.classes.iter().any(|c| c == "with-conflicts") || case.features >= 4 {
            o.nontrivial.push(hash64(&case.text));
            o.sample = Some(serde_json::json!({"kind": format!("{:?}", case.kind), "text": case.text}));
        }
        o
    }
}

//! C12 - specification parsers are total: a result or located errors, never crash or hang.

use crate::exec::{Outcome, Prop, Tier, catch, hash64};
use crate::genr::choices::Choices;
use crate::genr::lexspec::{RenderOpts, gen_al, render};
use crate::genr::yrender::YKind;
use crate::props::c10::{gen_case, yacc_kind};
use cfgrammar::header::GrmtoolsSectionParser;
use cfgrammar::yacc::ast::ASTWithValidityInfo;
use cfgrammar::yacc::YaccGrammar;
use cfgrammar::{Span, Spanned};
use lrlex::{DEFAULT_LEX_FLAGS, DefaultLexerTypes, LRNonStreamingLexerDef, LexerDef};
use serde::{Deserialize, Serialize};
use serde_json::Value;
use std::str::FromStr;
use std::sync::OnceLock;

pub struct C12;
type LT = DefaultLexerTypes<u32>;

#[derive(Serialize, Deserialize, Debug, Clone)]
pub struct Case {
    pub text: String,
    pub origin: String,
    /// flags handed to LRNonStreamingLexerDef::new_with_options, one bit per boolean flag in the
    /// order of LEX_FLAG_NAMES (0 = the defaults)
    #[serde(default)]
    pub lex_flags: u32,
}

pub const LEX_FLAG_NAMES: &[&str] = &["allow_wholeline_comments", "posix_escapes", "octal", "case_insensitive", "ignore_whitespace", "multi_line", "swap_greed"];

fn lex_flags_of(bits: u32) -> lrlex::LexFlags {
    let mut f = DEFAULT_LEX_FLAGS;
    let on = |k: u32| if bits & (1 << k) != 0 { Some(true) } else { None };
    f.allow_wholeline_comments = on(0).or(f.allow_wholeline_comments);
    f.posix_escapes = on(1).or(f.posix_escapes);
    f.octal = on(2).or(f.octal);
    f.case_insensitive = on(3).or(f.case_insensitive);
    f.ignore_whitespace = on(4).or(f.ignore_whitespace);
    f.multi_line = on(5).or(f.multi_line);
    f.swap_greed = on(6).or(f.swap_greed);
    f
}

static CORPUS: OnceLock<Vec<(String, String)>> = OnceLock::new();

pub fn corpus() -> &'static Vec<(String, String)> {
    CORPUS.get_or_init(|| {
        let root = std::env::var("GTV_ROOT").unwrap_or_else(|_| "/verif".into());
        let dir = std::path::Path::new(&root).join("corpus").join("specs");
        let mut v = vec![];
        if let Ok(rd) = std::fs::read_dir(&dir) {
            let mut files: Vec<_> = rd.filter_map(|e| e.ok().map(|e| e.path())).collect();
            files.sort();
            for f in files {
                if let Ok(s) = std::fs::read_to_string(&f) {
                    v.push((f.file_name().unwrap().to_string_lossy().to_string(), s));
                }
            }
        }
        v
    })
}

const HEADER_SNIPPETS: &[&str] = &[
    "%grmtools{a: [",
    "%grmtools{a: [ @ ]}",
    "%grmtools{a: 99999999999999999999999}",
    "%grmtools{yacckind: Original(",
    "%grmtools{x: \"str",
    "%grmtools{!",
    "%grmtools{a: b::",
    "%grmtools{a: [1, \"x\", c::d(e), [2, [3]]], !b, c}",
    "%grmtools {yacckind: Grmtools, recoverer: RecoveryKind::None,}",
    "%grmtools{test_files: \"*.txt\"}",
    "%grmtools{a: *}",
    "%grmtools",
    "%grmtools{",
    "%grmtools{a:",
    "%grmtools{a: [,,]}",
    "%grmtools{a, a, a: 1}",
    // values of the keys the parsers convert (yacckind, recoverer, lexer flags), well-formed as
    // section entries but wrong in one place each: constructor, argument, namespace, value type
    "%grmtools{yacckind: Orignal(NoAction)}\n%%\nS: 'a';\n",
    "%grmtools{yacckind: Grmtools(UserAction)}\n%%\nS: 'a';\n",
    "%grmtools{yacckind: YaccKind::Eco(YaccOriginalActionKind::GenericParseTree)}\n%%\nS: 'a';\n",
    "%grmtools{yacckind: Original(Nothing)}\n%%\nS: 'a';\n",
    "%grmtools{yacckind: Wrong::Original(NoAction)}\n%%\nS: 'a';\n",
    "%grmtools{yacckind: Original(Wrong::NoAction)}\n%%\nS: 'a';\n",
    "%grmtools{yacckind: Foo}\n%%\nS: 'a';\n",
    "%grmtools{yacckind: 3}\n%%\nS: 'a';\n",
    "%grmtools{yacckind: \"Grmtools\"}\n%%\nS: 'a';\n",
    "%grmtools{yacckind: [Grmtools]}\n%%\nS: 'a';\n",
    "%grmtools{!yacckind}\n%%\nS: 'a';\n",
    "%grmtools{yacckind: Grmtools, recoverer: Recovery::None}\n%%\nS -> (): 'a' {};\n",
    "%grmtools{yacckind: Grmtools, recoverer: RecoveryKind::Sometimes}\n%%\nS -> (): 'a' {};\n",
    "%grmtools{size_limit: true, octal: 3, case_insensitive: \"x\", nest_limit: [1]}\n%%\na 'A'\n",
    "%grmtools{dot_matches_new_line: Yes(No), unicode: a::b, !size_limit}\n%%\na 'A'\n",
];

const UNI_DIGITS: &[char] = &['\u{663}', '\u{ff11}', '\u{b2}', '\u{bd}', '\u{96f}', '\u{1d7d8}', '\u{2167}'];
const UNI_SPACES: &[char] = &['\u{a0}', '\u{2003}', '\u{3000}', '\u{85}', '\u{2028}', '\u{1680}'];
// (letters whose lower/upper-case forms have another length in UTF-8 included: U+212A KELVIN SIGN
// -> 'k', U+212B ANGSTROM SIGN -> U+00E5, U+0130 -> 'i' + combining dot, U+017F -> 's'/'S')
const UNI_LETTERS: &[char] = &['é', '漢', 'ß', 'İ', '\u{1d4d0}', 'ǅ', 'ſ', '\u{212a}', '\u{212b}', '\u{2126}'];
const UNI_ANY: &[char] = &[
    'é', '漢', '\u{2028}', '♠', '\u{a0}', '\u{663}', '\u{ff11}', '\u{b2}', '\u{2003}', '\u{3000}', '\u{85}', '\u{301}', '\u{1f600}', '\u{1d7d8}', 'İ', '\u{feff}', '\u{200b}',
];

fn char_bounds(s: &str) -> Vec<usize> {
    (0..=s.len()).filter(|i| s.is_char_boundary(*i)).collect()
}

pub fn mutate_text(ch: &mut Choices, text: &mut String, other: &str) {
    let bs = char_bounds(text);
    let at = |ch: &mut Choices, bs: &Vec<usize>| bs[ch.pick(bs.len())];
    match ch.pick(16) {
        0 => {
            let p = at(ch, &bs);
            text.truncate(p);
        }
        14 | 15 => {
            // premature end: everything from the start of some line on is replaced by a fragment of
            // a line (comment, declaration, rule prefix ...) that is not terminated by a newline
            let starts: Vec<usize> = std::iter::once(0).chain(text.match_indices('\n').map(|(i, _)| i + 1)).collect();
            let p = starts[ch.pick(starts.len())];
            text.truncate(p);
            text.push_str(*ch.choose(&["//", "// c", "//x", "// a comment that is rather long, longer than most headers are", "/*", "/* c", "%s A", "%x", "%", "%token", "%left 'a'", "%epp a", "%expect", "<A>", "<A", "a 'A'", "A:", "A: 'a'", "A -> u8:", "%%", "%grmtools{", "  ", "\t//", "\\", "a \\"]));
        }
        1 => {
            // delete one structural character
            let idxs: Vec<usize> = text
                .char_indices()
                .filter(|(_, c)| "{}[]()'\"<>;:|%,".contains(*c))
                .map(|(i, _)| i)
                .collect();
            if !idxs.is_empty() {
                let i = idxs[ch.pick(idxs.len())];
                text.remove(i);
            }
        }
        2 => {
            let idxs: Vec<usize> = text
                .char_indices()
                .filter(|(_, c)| "{}[]()'\"<>;:|%,".contains(*c))
                .map(|(i, _)| i)
                .collect();
            if !idxs.is_empty() {
                let i = idxs[ch.pick(idxs.len())];
                let c = text[i..].chars().next().unwrap();
                text.insert(i, c);
            }
        }
        3 => {
            // splice with another file
            let p = at(ch, &bs);
            let ob = char_bounds(other);
            let q = ob[ch.pick(ob.len())];
            let tail = other[q..].to_string();
            text.truncate(p);
            text.push_str(&tail);
        }
        4 => {
            // replace a number by a huge one
            if let Some(i) = text.find(|c: char| c.is_ascii_digit()) {
                let j = text[i..].find(|c: char| !c.is_ascii_digit()).map(|x| i + x).unwrap_or(text.len());
                text.replace_range(i..j, "9999999999999999999999999");
            } else {
                let p = at(ch, &bs);
                text.insert_str(p, " 9999999999999999999999999 ");
            }
        }
        5 => {
            let p = at(ch, &bs);
            text.insert(p, *ch.choose(UNI_ANY));
        }
        6 => {
            *text = text.replacen("%%", "", 1);
        }
        7 => {
            let p = at(ch, &bs);
            text.insert_str(p, "%%");
        }
        8 => {
            // prepend / replace a header
            let h = *ch.choose(HEADER_SNIPPETS);
            if text.trim_start().starts_with("%grmtools") && ch.chance(1, 2) {
                if let Some(e) = text.find('}') {
                    text.replace_range(..=e, h);
                } else {
                    *text = format!("{h}{text}");
                }
            } else {
                *text = format!("{h}\n{text}");
            }
        }
        9 => {
            let p = at(ch, &bs);
            text.insert_str(p, *ch.choose(&["/*", "*/", "//", "\r", "\x0c", "\x0b", "\u{85}", "\u{2028}", "\u{2029}", "\u{200e}", "\\", "<", ">", "->", "%prec", "%empty", "%left", "%token", "'", "\"", "{", "}", "%s", "%x", "<+", "::"]));
        }
        12 | 13 => {
            // class-preserving substitution: an ASCII digit / blank / letter becomes a multi-byte
            // character of the same Unicode class (is_numeric / is_whitespace / is_alphabetic)
            let want = ch.pick(3);
            let idxs: Vec<usize> = text
                .char_indices()
                .filter(|(_, c)| match want {
                    0 => c.is_ascii_digit(),
                    1 => *c == ' ' || *c == '\t',
                    _ => c.is_ascii_alphabetic(),
                })
                .map(|(i, _)| i)
                .collect();
            if !idxs.is_empty() {
                let i = idxs[ch.pick(idxs.len())];
                let r = match want {
                    0 => *ch.choose(UNI_DIGITS),
                    1 => *ch.choose(UNI_SPACES),
                    _ => *ch.choose(UNI_LETTERS),
                };
                text.replace_range(i..i + 1, r.encode_utf8(&mut [0u8; 4]));
            }
        }
        10 => {
            // delete a line
            let lines: Vec<&str> = text.split_inclusive('\n').collect();
            if lines.len() > 1 {
                let k = ch.pick(lines.len());
                *text = lines.iter().enumerate().filter(|(i, _)| *i != k).map(|(_, l)| *l).collect();
            }
        }
        _ => {
            // duplicate a line
            let lines: Vec<&str> = text.split_inclusive('\n').collect();
            if !lines.is_empty() {
                let k = ch.pick(lines.len());
                let mut v: Vec<&str> = lines.clone();
                v.insert(k, lines[k]);
                *text = v.concat();
            }
        }
    }
}

fn span_ok(sp: &Span, text: &str) -> bool {
    sp.start() <= sp.end() && sp.end() <= text.len() && text.is_char_boundary(sp.start()) && text.is_char_boundary(sp.end())
}

macro_rules! guard {
    ($o:expr, $what:expr, $text:expr, $call:expr) => {
        match catch(|| $call) {
            Ok(v) => v,
            Err(p) => {
                $o.fail(
                    "panic",
                    format!("C12/{}/{}", $what, p.signature()),
                    format!("{} panicked: {}\n--- input ---\n{}", $what, p.detail(), $text),
                );
                return $o;
            }
        }
    };
}

/// The formatter takes its argument by value; not every error type is `Clone`.
struct ByRef<'a, E: Spanned>(&'a E);
impl<E: Spanned> std::fmt::Display for ByRef<'_, E> {
    fn fmt(&self, f: &mut std::fmt::Formatter) -> std::fmt::Result {
        self.0.fmt(f)
    }
}
impl<E: Spanned> Spanned for ByRef<'_, E> {
    fn spans(&self) -> &[Span] {
        self.0.spans()
    }
    fn spanskind(&self) -> cfgrammar::yacc::parser::SpansKind {
        self.0.spanskind()
    }
}

/// "so it can always be rendered": the spans agree with the declared kind of the error (one span
/// for a plain error, first occurrence + repetitions for a duplication) and the builders'
/// formatter renders it without panicking; the spans of one duplicated %grmtools key all show the
/// same key (ASCII case aside: the keys are case-insensitive).
macro_rules! render_ok {
    ($o:expr, $what:expr, $text:expr, $e:expr, $warning:expr) => {{
        use cfgrammar::yacc::parser::SpansKind;
        use lrpar::diagnostics::{DiagnosticFormatter, SpannedDiagnosticFormatter};
        let e = $e;
        let n = e.spans().len();
        let kind = e.spanskind();
        let consistent = match kind {
            // (errors of the header's value conversions, which only the from_str entry points
            // reach, carry one span per offending part - namespace, constructor, argument -
            // under the kind Error: there the documented minimum of one span is asked for)
            SpansKind::Error if $what == "yacc-from_str" => n >= 1,
            SpansKind::Error => n == 1,
            SpansKind::DuplicationError => n >= 2,
            _ => true,
        };
        if !consistent {
            $o.fail("wrong", format!("C12/{}/spans-vs-kind", $what), format!("'{e}' is a {kind:?} with {n} spans\n--- input ---\n{}", $text));
            return $o;
        }
        // (only for the %grmtools section parser: a duplicated yacc declaration such as %start
        // shows the two - possibly different - values)
        if kind == SpansKind::DuplicationError && $what == "header" {
            let first = $text[e.spans()[0].start()..e.spans()[0].end()].to_ascii_lowercase();
            if let Some(other) = e.spans().iter().map(|s| $text[s.start()..s.end()].to_ascii_lowercase()).find(|t| *t != first) {
                $o.fail("wrong", format!("C12/{}/duplication-spans-differ", $what), format!("'{e}': the occurrences show different text ({first:?} and {other:?})\n--- input ---\n{}", $text));
                return $o;
            }
        }
        let fmt = SpannedDiagnosticFormatter::new($text, std::path::Path::new("spec"));
        let _ = $warning;
        let r = catch(|| fmt.format_warning(ByRef(e)));
        match r {
            Ok(out) => {
                if out.is_empty() {
                    $o.fail("wrong", format!("C12/{}/rendered-empty", $what), format!("'{e}' renders to nothing\n--- input ---\n{}", $text));
                    return $o;
                }
                $o.class("rendered");
            }
            Err(p) => {
                $o.fail("panic", format!("C12/{}/render/{}", $what, p.signature()), format!("rendering '{e}' panicked: {}\n--- input ---\n{}", p.detail(), $text));
                return $o;
            }
        }
    }};
}

impl Prop for C12 {
    fn id(&self) -> &'static str {
        "C12"
    }
    fn fuzz_target(&self) -> Option<&'static str> {
        Some("fz_specs")
    }
    fn stream_len(&self, _tier: Tier) -> usize {
        1000
    }
    fn cases(&self, tier: Tier) -> u32 {
        tier.pick(600_000, 10_000_000)
    }
    fn watchdog_ms(&self) -> u64 {
        5_000
    }
    fn decode(&self, choices: &[u32], tier: Tier) -> Value {
        let mut ch = Choices::new(choices);
        let corp = corpus();
        let (mut text, origin) = match ch.weighted(&[5, 2, 2, 1]) {
            0 if !corp.is_empty() => {
                let (n, s) = &corp[ch.pick(corp.len())];
                (s.clone(), n.clone())
            }
            1 => {
                let c = gen_case(&mut ch, tier);
                (c.text, format!("generated-y:{:?}", c.kind))
            }
            2 => {
                let al = gen_al(&mut ch, 4);
                let o = RenderOpts::generate(&mut ch, al.rules.len(), true);
                (render(&al, &o).0, "generated-l".to_string())
            }
            _ => (HEADER_SNIPPETS[ch.pick(HEADER_SNIPPETS.len())].to_string(), "header-snippet".to_string()),
        };
        let other = if corp.is_empty() { String::new() } else { corp[ch.pick(corp.len())].1.clone() };
        let n = ch.weighted(&[1, 4, 3, 2, 1]);
        for _ in 0..n {
            mutate_text(&mut ch, &mut text, &other);
        }
        if text.len() > 8000 {
            let bs = char_bounds(&text);
            let cut = *bs.iter().rev().find(|b| **b <= 8000).unwrap();
            text.truncate(cut);
        }
        // 1/3 of the texts go to new_with_options with non-default flags
        let lex_flags = if ch.chance(1, 3) { 1 + ch.pick((1 << LEX_FLAG_NAMES.len()) - 1) as u32 } else { 0 };
        serde_json::to_value(Case { text, origin, lex_flags }).unwrap()
    }
    fn extra_cases(&self, _tier: Tier, _seed: u64) -> Vec<Value> {
        // every corpus file and header snippet unmutated, and truncated at every char boundary of
        // its first 300 bytes
        let mut v = vec![];
        for (n, s) in corpus() {
            v.push(serde_json::to_value(Case { text: s.clone(), origin: n.clone(), lex_flags: 0 }).unwrap());
        }
        for h in HEADER_SNIPPETS {
            for b in char_bounds(h) {
                v.push(serde_json::to_value(Case { text: h[..b].to_string(), origin: "header-prefix".into(), lex_flags: 0 }).unwrap());
            }
        }
        v
    }
    fn rule(&self) -> String {
        "Texts: 75 specifications extracted from the repository (every .y/.l, the grammar/lexer sections of cttests, %grmtools snippets of the header tests) and six degenerate ones of my own (grammars without any token, a lexer without rules, with a skip rule only, with declarations only), own generated .y/.l renderings and header snippets, with 0-4 mutations (truncate at any char boundary, delete/duplicate a bracket-quote-brace, splice two files, 25-digit number, multi-byte character (letters, Unicode digits and blanks, combining, 4-byte) at any boundary, an ASCII digit/blank/letter replaced by a multi-byte character of the same Unicode class, remove/insert %%, replace/prepend a %grmtools section, insert a keyword/comment opener or one of the less common blank and line-ending characters (form feed, VT, NEL, U+2028, U+2029, LRM), delete/duplicate a line, premature end: the text from some line start on replaced by an unterminated line fragment such as a comment, a declaration or a rule prefix); plus all unmutated files and every prefix of the header snippets. Each text goes through ASTWithValidityInfo::new (5 kinds) and ::from_str, YaccGrammar::new_with_storaget/from_str, ast().warnings(), LRNonStreamingLexerDef::from_str/new_with_options (default flags, and for 1/3 of the texts a random non-empty subset of allow_wholeline_comments, posix_escapes, octal, case_insensitive, ignore_whitespace, multi_line, swap_greed), GrmtoolsSectionParser::parse(required true/false). Oracle: returns within the watchdog, no panic, Ok or non-empty Err, is_valid <=> no errors, every error/warning span inside the text on char boundaries, the number of spans agrees with the error's declared kind (one for a plain error, two or more for a duplication; the occurrences of a duplicated %grmtools key all show the same key), and the builders' SpannedDiagnosticFormatter renders every error and warning without panicking. Evaluation = one text through all entry points. Non-trivial: some parser got past the header into declarations/rules (an error located after the first line or a valid result); distinct by hash(text).".into()
    }
    fn assumptions(&self) -> Vec<String> {
        vec!["'promptly' = 5 s for inputs <= 8 KB (normal cost: microseconds), re-confirmed with 50 s in a fresh process".into()]
    }
    fn required_classes(&self, _tier: Tier) -> Vec<&'static str> {
        vec!["yacc:valid", "yacc:errors", "lex:valid", "lex:errors", "header:ok", "header:errors", "warnings", "lex:allow_wholeline_comments"]
    }
    fn evaluate(&self, case: &Value) -> Outcome {
        let case: Case = serde_json::from_value(case.clone()).unwrap();
        let mut o = Outcome::new();
        o.evals = 1;
        let text = &case.text;
        let mut deep = false;
        let bad_span = |spans: &[Span]| spans.iter().find(|s| !span_ok(s, text)).cloned();

        // ---- %grmtools section
        for required in [false, true] {
            let r = guard!(o, "GrmtoolsSectionParser::parse", text, GrmtoolsSectionParser::new(text, required).parse());
            match r {
                Ok((_h, pos)) => {
                    o.class("header:ok");
                    if pos > text.len() || !text.is_char_boundary(pos) {
                        o.fail("wrong", "C12/header/bad-end-position", format!("position {pos} for text of {} bytes\n{text}", text.len()));
                        return o;
                    }
                }
                Err(errs) => {
                    o.class("header:errors");
                    if errs.is_empty() {
                        o.fail("wrong", "C12/header/err-without-errors", text.clone());
                        return o;
                    }
                    for e in &errs {
                        if let Some(sp) = bad_span(e.spans()) {
                            o.fail("wrong", "C12/header/bad-span", format!("'{e}' span {}..{} (text {} bytes)\n{text}", sp.start(), sp.end(), text.len()));
                            return o;
                        }
                        render_ok!(o, "header", text, e, false);
                    }
                }
            }
        }
        // ---- yacc
        for k in [YKind::Generic, YKind::NoAction, YKind::UserAction, YKind::Grmtools, YKind::Eco] {
            let yk = yacc_kind(k);
            let ast = guard!(o, "ASTWithValidityInfo::new", text, ASTWithValidityInfo::new(yk, text));
            if ast.is_valid() != ast.errors().is_empty() {
                o.fail("wrong", "C12/ast/valid-vs-errors", format!("is_valid {} but {} errors\n{text}", ast.is_valid(), ast.errors().len()));
                return o;
            }
            for e in ast.errors() {
                if let Some(sp) = bad_span(e.spans()) {
                    o.fail("wrong", "C12/yacc/bad-span", format!("'{e}' span {}..{} (text {} bytes)\n{text}", sp.start(), sp.end(), text.len()));
                    return o;
                }
                if e.spans().iter().any(|s| text[..s.start()].contains('\n')) {
                    deep = true;
                }
                render_ok!(o, "yacc", text, e, false);
            }
            let ws = guard!(o, "GrammarAST::warnings", text, ast.ast().warnings());
            for w in &ws {
                o.class("warnings");
                if let Some(sp) = bad_span(w.spans()) {
                    o.fail("wrong", "C12/yacc/bad-warning-span", format!("'{w}' span {}..{}\n{text}", sp.start(), sp.end()));
                    return o;
                }
                render_ok!(o, "yacc-warning", text, w, true);
            }
            let g = guard!(o, "YaccGrammar::new_with_storaget", text, YaccGrammar::<u32>::new_with_storaget(yk, text));
            match g {
                Ok(_) => {
                    o.class("yacc:valid");
                    deep = true;
                    if !ast.is_valid() {
                        o.fail("wrong", "C12/yacc/grammar-from-invalid-ast", text.clone());
                        return o;
                    }
                }
                Err(errs) => {
                    o.class("yacc:errors");
                    if errs.is_empty() {
                        o.fail("wrong", "C12/yacc/err-without-errors", text.clone());
                        return o;
                    }
                    for e in &errs {
                        if let Some(sp) = bad_span(e.spans()) {
                            o.fail("wrong", "C12/yacc/bad-span", format!("'{e}' span {}..{}\n{text}", sp.start(), sp.end()));
                            return o;
                        }
                    }
                }
            }
        }
        {
            let r = guard!(o, "ASTWithValidityInfo::from_str", text, ASTWithValidityInfo::from_str(text));
            match r {
                Ok(ast) => {
                    if ast.is_valid() != ast.errors().is_empty() {
                        o.fail("wrong", "C12/ast/valid-vs-errors", text.clone());
                        return o;
                    }
                    for e in ast.errors() {
                        if let Some(sp) = bad_span(e.spans()) {
                            o.fail("wrong", "C12/yacc/bad-span", format!("'{e}' span {}..{}\n{text}", sp.start(), sp.end()));
                            return o;
                        }
                        render_ok!(o, "yacc-from_str", text, e, false);
                    }
                }
                Err(errs) => {
                    if errs.is_empty() {
                        o.fail("wrong", "C12/yacc/err-without-errors", text.clone());
                        return o;
                    }
                    // (this entry point also converts the header's yacckind: its errors are located too)
                    for e in &errs {
                        if let Some(sp) = bad_span(e.spans()) {
                            o.fail("wrong", "C12/yacc/bad-span", format!("'{e}' span {}..{}\n{text}", sp.start(), sp.end()));
                            return o;
                        }
                        render_ok!(o, "yacc-from_str", text, e, false);
                    }
                }
            }
            let r = guard!(o, "YaccGrammar::from_str", text, YaccGrammar::<u32>::from_str(text));
            if let Err(errs) = r {
                if errs.is_empty() {
                    o.fail("wrong", "C12/yacc/err-without-errors", text.clone());
                    return o;
                }
            }
        }
        // ---- lex
        {
            let r = guard!(o, "LRNonStreamingLexerDef::from_str", text, LRNonStreamingLexerDef::<LT>::from_str(text));
            match r {
                Ok(_) => {
                    o.class("lex:valid");
                    deep = true;
                }
                Err(errs) => {
                    o.class("lex:errors");
                    if errs.is_empty() {
                        o.fail("wrong", "C12/lex/err-without-errors", text.clone());
                        return o;
                    }
                    for e in &errs {
                        if let Some(sp) = bad_span(e.spans()) {
                            o.fail("wrong", "C12/lex/bad-span", format!("'{e}' span {}..{} (text {} bytes)\n{text}", sp.start(), sp.end(), text.len()));
                            return o;
                        }
                        if e.spans().iter().any(|s| text[..s.start()].contains('\n')) {
                            deep = true;
                        }
                        render_ok!(o, "lex", text, e, false);
                    }
                }
            }
            let r = guard!(o, "LRNonStreamingLexerDef::new_with_options", text, LRNonStreamingLexerDef::<LT>::new_with_options(text, lex_flags_of(case.lex_flags)));
            if case.lex_flags & 1 != 0 {
                o.class("lex:allow_wholeline_comments");
            }
            if let Err(errs) = r {
                if errs.is_empty() {
                    o.fail("wrong", "C12/lex/err-without-errors", text.clone());
                    return o;
                }
                for e in &errs {
                    if let Some(sp) = bad_span(e.spans()) {
                        o.fail("wrong", "C12/lex/bad-span", format!("'{e}' span {}..{}\n{text}", sp.start(), sp.end()));
                        return o;
                    }
                }
            }
        }
        if deep {
            o.nontrivial.push(hash64(text));
            o.sample = Some(serde_json::json!({"origin": case.origin, "text": text.chars().take(600).collect::<String>()}));
        }
        o
    }
}

//! Glue for the libFuzzer targets (engine/fuzz): every target calls the same `evaluate` as the
//! proptest path and aborts on a violation, so the semantic oracle is inside the target.

use crate::exec::{Prop, Tier, Verdict, install_panic_hook};
use crate::genr::choices::Choices;
use serde_json::{Value, json};
use std::sync::OnceLock;

static HOOK: OnceLock<()> = OnceLock::new();

fn judge(prop: &dyn Prop, case: &Value) {
    HOOK.get_or_init(|| {
        crate::exec::IN_FUZZ.store(true, std::sync::atomic::Ordering::SeqCst);
        install_panic_hook()
    });
    let o = crate::exec::worker::evaluate_guarded(prop, case);
    if let Verdict::Violation { kind, signature, detail } = &o.verdict {
        if kind == "harness" {
            // a mistake of the harness must not be reported as a crash of the target
            return;
        }
        // known findings are excluded by construction inside the properties; whatever arrives
        // here is new
        eprintln!("GTV-FUZZ-VIOLATION property={} signature={}\n{}", prop.id(), signature, detail.chars().take(2000).collect::<String>());
        std::process::abort();
    }
}

pub fn run_case(id: &str, case: Value) {
    let p = crate::props::by_id(id).expect("property");
    judge(p.as_ref(), &case);
}

pub fn c12_case(data: &[u8]) -> Value {
    // a trailing byte >= 0x80 is not text: its low seven bits are the lexer flags handed to
    // new_with_options (plain ASCII seeds therefore keep the default flags)
    match data.last() {
        Some(b) if *b >= 0x80 => json!({"text": String::from_utf8_lossy(&data[..data.len() - 1]), "origin": "libfuzzer", "lex_flags": (*b & 0x7f) as u32}),
        _ => json!({"text": String::from_utf8_lossy(data), "origin": "libfuzzer"}),
    }
}

pub fn c19_case(data: &[u8]) -> Value {
    // first byte: number of cuts; next bytes: cut positions; rest: text
    if data.is_empty() {
        return json!({"chunks": [""]});
    }
    let ncuts = (data[0] % 5) as usize;
    let cuts_raw: Vec<usize> = data.iter().skip(1).take(ncuts).map(|b| *b as usize).collect();
    let text = String::from_utf8_lossy(&data[(1 + ncuts).min(data.len())..]).to_string();
    let bounds: Vec<usize> = (0..=text.len()).filter(|i| text.is_char_boundary(*i)).collect();
    let mut cuts: Vec<usize> = cuts_raw.iter().map(|c| bounds[c % bounds.len()]).collect();
    cuts.sort();
    let mut chunks = vec![];
    let mut prev = 0;
    for c in cuts {
        chunks.push(text[prev..c].to_string());
        prev = c;
    }
    chunks.push(text[prev..].to_string());
    json!({"chunks": chunks})
}

static PROP: OnceLock<Box<dyn Prop>> = OnceLock::new();

pub fn choices_case(prop: &dyn Prop, data: &[u8]) -> Value {
    let ch = Choices::from_bytes(data);
    prop.decode(&ch, Tier::Quick)
}

pub fn run_choices(data: &[u8]) {
    let p = PROP.get_or_init(|| {
        let id = std::env::var("GTV_FUZZ_PROP").unwrap_or_else(|_| "C01".into());
        crate::props::by_id(&id).expect("GTV_FUZZ_PROP names no property")
    });
    let case = choices_case(p.as_ref(), data);
    judge(p.as_ref(), &case);
}

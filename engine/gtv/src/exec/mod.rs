//! Executor: the parent generates and shrinks (proptest `TestRunner`, one per lane), killable
//! worker child processes evaluate JSON cases. See DESIGN.md section 2.3.

pub mod known;
pub mod fuzzstage;
pub mod runner;
pub mod worker;

use serde::{Deserialize, Serialize};
use serde_json::Value;
use std::cell::RefCell;
use std::panic;

#[derive(Clone, Copy, Debug, PartialEq, Eq)]
pub enum Tier {
    Quick,
    Thorough,
}

impl Tier {
    pub fn name(self) -> &'static str {
        match self {
            Tier::Quick => "quick",
            Tier::Thorough => "thorough",
        }
    }
    pub fn pick<T>(self, q: T, t: T) -> T {
        match self {
            Tier::Quick => q,
            Tier::Thorough => t,
        }
    }
}

#[derive(Clone, Debug, Serialize, Deserialize, PartialEq)]
#[serde(tag = "v")]
pub enum Verdict {
    Pass,
    Discard {
        reason: String,
    },
    Violation {
        kind: String,
        signature: String,
        detail: String,
    },
}

impl Verdict {
    pub fn violation(kind: &str, signature: impl Into<String>, detail: impl Into<String>) -> Self {
        Verdict::Violation {
            kind: kind.to_string(),
            signature: signature.into(),
            detail: detail.into(),
        }
    }
    pub fn is_violation(&self) -> bool {
        matches!(self, Verdict::Violation { .. })
    }
    pub fn signature(&self) -> Option<&str> {
        match self {
            Verdict::Violation { signature, .. } => Some(signature),
            _ => None,
        }
    }
}

/// What a worker reports for one case. A case may bundle several sub-evaluations (one grammar,
/// many inputs): `evals` counts them, `nontrivial` holds one hash per distinct non-trivial
/// sub-case, `classes` labels (with multiplicity) for the class histogram.
#[derive(Clone, Debug, Serialize, Deserialize)]
pub struct Outcome {
    pub verdict: Verdict,
    pub classes: Vec<String>,
    pub evals: u64,
    pub nontrivial: Vec<u64>,
    /// a non-trivial sub-case written out for the evidence file (optional)
    pub sample: Option<Value>,
}

impl Outcome {
    pub fn new() -> Self {
        Outcome {
            verdict: Verdict::Pass,
            classes: vec![],
            evals: 0,
            nontrivial: vec![],
            sample: None,
        }
    }
    pub fn class(&mut self, c: &str) {
        self.classes.push(c.to_string());
    }
    pub fn fail(&mut self, kind: &str, signature: impl Into<String>, detail: impl Into<String>) {
        if !self.verdict.is_violation() {
            self.verdict = Verdict::violation(kind, signature, detail);
        }
    }
    pub fn discard(&mut self, reason: &str) {
        if !self.verdict.is_violation() {
            self.verdict = Verdict::Discard {
                reason: reason.to_string(),
            };
        }
    }
    pub fn failed(&self) -> bool {
        self.verdict.is_violation()
    }
}

impl Default for Outcome {
    fn default() -> Self {
        Self::new()
    }
}

/// The interface every property module implements.
pub trait Prop: Sync + Send {
    fn id(&self) -> &'static str;
    /// Maximum length of the choice stream.
    fn stream_len(&self, tier: Tier) -> usize;
    /// Total number of generated cases (split over the lanes).
    fn cases(&self, tier: Tier) -> u32;
    /// Watchdog per case in milliseconds (orders of magnitude above normal cost).
    fn watchdog_ms(&self) -> u64 {
        20_000
    }
    /// Decode a choice stream into a concrete, self-contained, JSON case. Pure; runs in the parent.
    fn decode(&self, choices: &[u32], tier: Tier) -> Value;
    /// Evaluate one case against the oracle. Runs in a worker.
    fn evaluate(&self, case: &Value) -> Outcome;
    /// Generator + non-triviality rule, for the evidence file.
    fn rule(&self) -> String;
    fn level(&self) -> &'static str {
        "exploration"
    }
    fn assumptions(&self) -> Vec<String> {
        vec![]
    }
    /// Class labels that must occur at least once in a run (generator health); a stratum at
    /// zero is exit 2, never a pass.
    fn required_classes(&self, _tier: Tier) -> Vec<&'static str> {
        vec![]
    }
    /// Deterministic extra cases evaluated before the random search (bounded-exhaustive
    /// enumerations, boundary strata). Each is a full case.
    fn extra_cases(&self, _tier: Tier, _seed: u64) -> Vec<Value> {
        vec![]
    }
    /// Signature given to a hang ("hang") or a dead worker ("crash") on this case. Properties
    /// override it to tell apart a listed known finding (exact probe) from anything else.
    fn abnormal_signature(&self, _case: &Value, kind: &str) -> String {
        format!("{kind}:{}", self.id())
    }
    /// A dead worker on this case is resource exhaustion of the harness' making (the worker runs
    /// under an address-space limit), not a verdict: the case is discarded and counted.
    fn crash_is_resource_exhaustion(&self, _case: &Value) -> bool {
        false
    }
    fn max_shrink_iters(&self) -> u32 {
        600
    }
    /// libFuzzer target (engine/fuzz) that drives this property's decoder and oracle, if any.
    fn fuzz_target(&self) -> Option<&'static str> {
        None
    }
    /// Executions per libFuzzer job (16 jobs) in the thorough tier.
    fn fuzz_runs(&self) -> u64 {
        250_000
    }
}

/// Set by the libFuzzer glue: the current executable is a fuzz target, not `gtv`, so evaluations
/// must not start `gtv` child processes of themselves.
pub static IN_FUZZ: std::sync::atomic::AtomicBool = std::sync::atomic::AtomicBool::new(false);

// ---------------------------------------------------------------------------------------------
// Panic capture

#[derive(Clone, Debug)]
pub struct PanicInfo {
    pub file: String,
    pub line: u32,
    pub msg: String,
}

impl PanicInfo {
    /// Stable signature: file (relative to the repository when possible) + message with digits
    /// normalised (line numbers move when the code is edited).
    pub fn signature(&self) -> String {
        let file = self
            .file
            .strip_prefix("/repo/")
            .unwrap_or(self.file.as_str());
        let mut m = String::new();
        let mut last_digit = false;
        for c in self.msg.chars() {
            if c.is_ascii_digit() {
                if !last_digit {
                    m.push('N');
                }
                last_digit = true;
            } else {
                last_digit = false;
                m.push(if c == '\n' { ' ' } else { c });
            }
            if m.len() >= 90 {
                break;
            }
        }
        format!("panic@{}:{}", file, m)
    }
    pub fn detail(&self) -> String {
        format!("{}:{}: {}", self.file, self.line, self.msg)
    }
}

thread_local! {
    static LAST_PANIC: RefCell<Option<PanicInfo>> = const { RefCell::new(None) };
}

/// Install a panic hook that records location and message instead of printing.
pub fn install_panic_hook() {
    panic::set_hook(Box::new(|info| {
        let (file, line) = info
            .location()
            .map(|l| (l.file().to_string(), l.line()))
            .unwrap_or_else(|| ("?".to_string(), 0));
        let msg = if let Some(s) = info.payload().downcast_ref::<&str>() {
            s.to_string()
        } else if let Some(s) = info.payload().downcast_ref::<String>() {
            s.clone()
        } else {
            "<non-string panic payload>".to_string()
        };
        LAST_PANIC.with(|p| *p.borrow_mut() = Some(PanicInfo { file, line, msg }));
    }));
}

/// Run `f`, turning a panic into `Err(PanicInfo)`.
pub fn catch<R>(f: impl FnOnce() -> R) -> Result<R, PanicInfo> {
    LAST_PANIC.with(|p| *p.borrow_mut() = None);
    match panic::catch_unwind(panic::AssertUnwindSafe(f)) {
        Ok(r) => Ok(r),
        Err(_) => Err(LAST_PANIC
            .with(|p| p.borrow_mut().take())
            .unwrap_or(PanicInfo {
                file: "?".into(),
                line: 0,
                msg: "panic (no info)".into(),
            })),
    }
}

pub fn hash64(s: &str) -> u64 {
    // FNV-1a, deterministic across processes
    let mut h: u64 = 0xcbf29ce484222325;
    for b in s.as_bytes() {
        h ^= *b as u64;
        h = h.wrapping_mul(0x100000001b3);
    }
    h
}

pub fn hash_value(v: &Value) -> u64 {
    hash64(&v.to_string())
}

//! known_findings.json: committed, never written at run time.

use serde::{Deserialize, Serialize};
use std::path::Path;

#[derive(Clone, Debug, Serialize, Deserialize)]
pub struct Finding {
    pub property: String,
    /// "open" or "fixed"
    pub status: String,
    pub id: String,
    /// A violation matches this entry iff its signature starts with this string.
    pub signature: String,
    /// Path (relative to /verif) of the stored replay case.
    #[serde(default)]
    pub replay: Option<String>,
    #[serde(default)]
    pub commit: Option<String>,
    pub what: String,
    /// Human readable one-line record ("fixed: property=<id> <commit> <what failed>").
    #[serde(default)]
    pub line: Option<String>,
}

#[derive(Clone, Debug, Serialize, Deserialize, Default)]
pub struct KnownFindings {
    pub findings: Vec<Finding>,
}

impl KnownFindings {
    pub fn load(root: &Path) -> KnownFindings {
        let p = root.join("known_findings.json");
        match std::fs::read_to_string(&p) {
            Ok(s) => serde_json::from_str(&s).unwrap_or_else(|e| {
                eprintln!("known_findings.json unreadable: {e}");
                std::process::exit(2);
            }),
            Err(_) => KnownFindings::default(),
        }
    }

    pub fn open_for<'a>(&'a self, prop: &str) -> Vec<&'a Finding> {
        self.findings
            .iter()
            .filter(|f| f.property == prop && f.status == "open")
            .collect()
    }

    pub fn matches_open<'a>(&'a self, prop: &str, signature: &str) -> Option<&'a Finding> {
        self.open_for(prop)
            .into_iter()
            .find(|f| signature.starts_with(&f.signature))
    }
}

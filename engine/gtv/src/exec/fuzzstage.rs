//! Coverage-guided stage of the thorough tier: libFuzzer campaigns (cargo-fuzz, nightly) over
//! the same decoders and oracles as the proptest lanes. The target aborts on a violation; every
//! artifact it leaves (crash-, timeout-, oom-) is decoded again here and re-judged through the
//! ordinary worker path (watchdog, fresh-process confirmation, known findings), so a verdict
//! never rests on libFuzzer's own process. If the nightly tool chain or the build is not
//! available the stage reports that and decides nothing.

use super::Prop;
use serde_json::{Value, json};
use std::path::{Path, PathBuf};
use std::process::{Command, Stdio};
use std::time::{Duration, Instant};

pub const JOBS: usize = 16;

pub struct FuzzOutcome {
    /// goes into evidence.coverage.fuzz
    pub report: Value,
    /// (artifact path, decoded case)
    pub artifacts: Vec<(PathBuf, Value)>,
}

fn unavailable(reason: String) -> FuzzOutcome {
    FuzzOutcome {
        report: json!({"available": false, "reason": reason}),
        artifacts: vec![],
    }
}

/// Builds the target (no sanitizer: the oracle is semantic and the code under test is safe Rust
/// but for a few lines) and returns the path of the binary.
pub fn build_target(root: &Path, target: &str) -> Result<PathBuf, String> {
    let dir = root.join("engine").join("fuzz");
    if !dir.join("Cargo.toml").exists() {
        return Err("engine/fuzz is missing".into());
    }
    let lock = root.join("engine").join("Cargo.lock");
    if lock.exists() && !dir.join("Cargo.lock").exists() {
        let _ = std::fs::copy(&lock, dir.join("Cargo.lock"));
    }
    let out = Command::new("cargo")
        .args(["+nightly", "fuzz", "build", "-s", "none", target])
        .current_dir(&dir)
        .env("RUSTFLAGS", "--cfg grmtools_verif")
        .env("CARGO_NET_OFFLINE", "true")
        .stdin(Stdio::null())
        .output()
        .map_err(|e| format!("cannot run cargo +nightly fuzz: {e}"))?;
    if !out.status.success() {
        let err = String::from_utf8_lossy(&out.stderr);
        let tail: Vec<&str> = err.lines().rev().take(6).collect();
        return Err(format!("cargo +nightly fuzz build failed: {}", tail.into_iter().rev().collect::<Vec<_>>().join(" | ")));
    }
    let bin = dir.join("target").join("x86_64-unknown-linux-gnu").join("release").join(target);
    if bin.exists() { Ok(bin) } else { Err(format!("{} not produced", bin.display())) }
}

fn splitmix(x: &mut u64) -> u64 {
    *x = x.wrapping_add(0x9e3779b97f4a7c15);
    let mut z = *x;
    z = (z ^ (z >> 30)).wrapping_mul(0xbf58476d1ce4e5b9);
    z = (z ^ (z >> 27)).wrapping_mul(0x94d049bb133111eb);
    z ^ (z >> 31)
}

/// Starting corpus of one job: for the choice-stream target pseudo-random streams of full length
/// (libFuzzer grows inputs slowly from nothing), for the text targets the repository's
/// specifications / a few line-ending texts.
fn seed_corpus(root: &Path, prop: &dyn Prop, target: &str, dir: &Path, seed: u64, max_len: usize) {
    let _ = std::fs::create_dir_all(dir);
    match target {
        "fz_specs" => {
            if let Ok(rd) = std::fs::read_dir(root.join("corpus").join("specs")) {
                for e in rd.flatten() {
                    let _ = std::fs::copy(e.path(), dir.join(e.file_name()));
                }
            }
        }
        "fz_lines" => {
            for (i, t) in ["\x02\x03\x05a\r\nb\nc\rd", "\x01\x02line\n\nx", "\x00", "\x04\x01\x02\x03\x04é漢\r\n\r\r\n\n"].iter().enumerate() {
                let _ = std::fs::write(dir.join(format!("s{i}")), t);
            }
        }
        _ => {
            let mut x = seed ^ super::hash64(prop.id());
            for k in 0..8 {
                let len = if k < 2 { max_len } else { max_len / (k + 1) };
                let bytes: Vec<u8> = (0..len).map(|_| (splitmix(&mut x) >> 24) as u8).collect();
                let _ = std::fs::write(dir.join(format!("r{k}")), bytes);
            }
        }
    }
}

pub fn decode_artifact(prop: &dyn Prop, target: &str, data: &[u8]) -> Value {
    match target {
        "fz_specs" => crate::fuzzglue::c12_case(data),
        "fz_lines" => crate::fuzzglue::c19_case(data),
        _ => crate::fuzzglue::choices_case(prop, data),
    }
}

/// Runs JOBS independent libFuzzer processes with `runs_per_job` executions each.
pub fn run(root: &Path, prop: &dyn Prop, target: &str, seed: u64, runs_per_job: u64) -> FuzzOutcome {
    let t0 = Instant::now();
    let bin = match build_target(root, target) {
        Ok(b) => b,
        Err(e) => return unavailable(e),
    };
    let base = root.join("work").join("fuzz").join(prop.id()).join(format!("{seed}"));
    let _ = std::fs::remove_dir_all(&base);
    let _ = std::fs::create_dir_all(&base);
    let max_len = match target {
        "fz_specs" => 4096,
        "fz_lines" => 512,
        _ => 4 * prop.stream_len(super::Tier::Quick),
    };
    // libFuzzer's own limits only end a job and leave an artifact; the verdict is taken later
    let timeout_s = (prop.watchdog_ms() / 1000).clamp(5, 120);
    let mut children = vec![];
    for j in 0..JOBS {
        let corpus = base.join(format!("c{j}"));
        seed_corpus(root, prop, target, &corpus, seed.wrapping_add(j as u64), max_len);
        let log = std::fs::File::create(base.join(format!("job{j}.log"))).unwrap();
        let child = Command::new(&bin)
            .arg(&corpus)
            .arg(format!("-runs={runs_per_job}"))
            .arg(format!("-seed={}", (seed.wrapping_mul(1000).wrapping_add(j as u64 + 1)) % 4_000_000_000))
            .arg(format!("-max_len={max_len}"))
            .arg("-len_control=0")
            .arg(format!("-timeout={timeout_s}"))
            .arg("-rss_limit_mb=3500")
            .arg(format!("-artifact_prefix={}/a{j}-", base.display()))
            .arg("-print_final_stats=1")
            .arg("-verbosity=1")
            .env("GTV_FUZZ_PROP", prop.id())
            .env("GTV_ROOT", root)
            .env("RUST_BACKTRACE", "0")
            .stdin(Stdio::null())
            .stdout(Stdio::null())
            .stderr(Stdio::from(log))
            .spawn();
        match child {
            Ok(c) => children.push(c),
            Err(e) => return unavailable(format!("cannot start {}: {e}", bin.display())),
        }
    }
    // overall limit: a job that neither finishes nor trips libFuzzer's own timeout is killed and
    // counted, never judged (libFuzzer's alarm handler can deadlock inside the allocator; such a
    // job sleeps forever). Three hours at most; once half of the jobs are done, the others get
    // four times what the median job took (at least twenty minutes).
    let hard_limit = Duration::from_secs(3 * 3600);
    let mut killed = 0;
    let mut finished: Vec<Option<Duration>> = vec![None; children.len()];
    loop {
        let mut running = 0;
        for (i, c) in children.iter_mut().enumerate() {
            if finished[i].is_some() {
                continue;
            }
            match c.try_wait() {
                Ok(Some(_)) | Err(_) => finished[i] = Some(t0.elapsed()),
                Ok(None) => running += 1,
            }
        }
        if running == 0 {
            break;
        }
        let mut done: Vec<Duration> = finished.iter().flatten().cloned().collect();
        done.sort();
        let limit = if done.len() * 2 >= children.len() {
            (done[done.len() / 2] * 4).max(Duration::from_secs(1200)).min(hard_limit)
        } else {
            hard_limit
        };
        if t0.elapsed() > limit {
            for (i, c) in children.iter_mut().enumerate() {
                if finished[i].is_none() {
                    let _ = c.kill();
                    let _ = c.wait();
                    finished[i] = Some(t0.elapsed());
                    killed += 1;
                }
            }
            break;
        }
        std::thread::sleep(Duration::from_millis(200));
    }
    let mut execs = 0u64;
    let mut cov = 0u64;
    let mut ft = 0u64;
    let mut corpus_units = 0u64;
    for j in 0..JOBS {
        let txt = std::fs::read_to_string(base.join(format!("job{j}.log"))).unwrap_or_default();
        for l in txt.lines() {
            if let Some(r) = l.strip_prefix("stat::number_of_executed_units:") {
                execs += r.trim().parse::<u64>().unwrap_or(0);
            }
        }
        // last status line: "#123 DONE cov: 456 ft: 789 corp: 12/3456b ..."
        if let Some(l) = txt.lines().rev().find(|l| l.contains(" cov: ")) {
            let num_after = |key: &str| -> u64 {
                l.split(key).nth(1).and_then(|r| r.trim().split(|c: char| !c.is_ascii_digit()).next().and_then(|x| x.parse().ok())).unwrap_or(0)
            };
            cov = cov.max(num_after(" cov: "));
            ft = ft.max(num_after(" ft: "));
            corpus_units += num_after(" corp: ");
        }
    }
    let mut artifacts = vec![];
    if let Ok(rd) = std::fs::read_dir(&base) {
        let mut files: Vec<PathBuf> = rd.flatten().map(|e| e.path()).filter(|p| p.is_file() && p.file_name().map(|n| n.to_string_lossy().starts_with('a')).unwrap_or(false)).collect();
        files.sort();
        for f in files {
            if let Ok(data) = std::fs::read(&f) {
                artifacts.push((f, decode_artifact(prop, target, &data)));
            }
        }
    }
    FuzzOutcome {
        report: json!({
            "available": true,
            "engine": "libFuzzer (cargo-fuzz, sanitizer none)",
            "target": target,
            "jobs": JOBS,
            "runs_per_job": runs_per_job,
            "executions": execs,
            "edge_coverage_max_over_jobs": cov,
            "features_max_over_jobs": ft,
            "corpus_units_total": corpus_units,
            "artifacts": artifacts.len(),
            "jobs_killed_at_overall_limit": killed,
            "wall_s": t0.elapsed().as_secs_f64(),
        }),
        artifacts,
    }
}

//! Worker child process (evaluates JSON cases) and the parent-side handle with watchdog.

use super::{Outcome, Prop, Verdict, catch, install_panic_hook};
use serde_json::Value;
use std::io::{BufRead, BufReader, Write};
use std::os::unix::io::FromRawFd;
use std::process::{Child, ChildStdin, Command, Stdio};
use std::sync::mpsc::{Receiver, RecvTimeoutError, channel};
use std::time::Duration;

/// Evaluate with panic capture: a panic that escapes `evaluate` is a violation of kind `panic`.
pub fn evaluate_guarded(prop: &dyn Prop, case: &Value) -> Outcome {
    match catch(|| prop.evaluate(case)) {
        Ok(o) => o,
        Err(p) => {
            let mut o = Outcome::new();
            o.evals = 1;
            // a panic inside the harness itself is an infrastructure error, never a violation
            let kind = if p.file.starts_with("gtv/src") || p.file.contains("/verif/") {
                "harness"
            } else {
                "panic"
            };
            o.verdict = Verdict::violation(kind, p.signature(), p.detail());
            o
        }
    }
}

/// Main loop of `gtv worker <ID>`: one JSON case per line on stdin, one JSON outcome per line on
/// a private copy of stdout (fd 1 is redirected to stderr so library prints cannot corrupt the
/// protocol).
pub fn worker_main(prop: &dyn Prop) -> ! {
    install_panic_hook();
    // A runaway allocation must kill this worker (alloc failure => abort => "crash" verdict),
    // not the machine.
    unsafe {
        let lim = libc::rlimit {
            rlim_cur: 3 << 30,
            rlim_max: 3 << 30,
        };
        libc::setrlimit(libc::RLIMIT_AS, &lim);
    }
    let out_fd = unsafe { libc::dup(1) };
    unsafe {
        libc::dup2(2, 1);
    }
    let mut out = unsafe { std::fs::File::from_raw_fd(out_fd) };
    let stdin = std::io::stdin();
    let mut line = String::new();
    loop {
        line.clear();
        match stdin.lock().read_line(&mut line) {
            Ok(0) | Err(_) => std::process::exit(0),
            Ok(_) => {}
        }
        let case: Value = match serde_json::from_str(&line) {
            Ok(v) => v,
            Err(e) => {
                let mut o = Outcome::new();
                o.verdict = Verdict::Discard {
                    reason: format!("bad-json:{e}"),
                };
                let _ = writeln!(out, "{}", serde_json::to_string(&o).unwrap());
                continue;
            }
        };
        let o = evaluate_guarded(prop, &case);
        let s = serde_json::to_string(&o).unwrap();
        if writeln!(out, "{}", s).is_err() {
            std::process::exit(0);
        }
        let _ = out.flush();
    }
}

pub enum EvalResult {
    Done(Outcome),
    Hang,
    Crash(String),
}

pub struct Worker {
    prop_id: String,
    child: Child,
    stdin: Option<ChildStdin>,
    rx: Receiver<String>,
}

impl Worker {
    pub fn spawn(prop_id: &str) -> std::io::Result<Worker> {
        let exe = std::env::current_exe()?;
        let mut child = Command::new(exe)
            .arg("worker")
            .arg(prop_id)
            .stdin(Stdio::piped())
            .stdout(Stdio::piped())
            .stderr(Stdio::null())
            .env("RUST_BACKTRACE", "0")
            .spawn()?;
        let stdin = child.stdin.take();
        let stdout = child.stdout.take().unwrap();
        let (tx, rx) = channel();
        std::thread::spawn(move || {
            let mut r = BufReader::new(stdout);
            let mut line = String::new();
            loop {
                line.clear();
                match r.read_line(&mut line) {
                    Ok(0) | Err(_) => break,
                    Ok(_) => {
                        if tx.send(line.clone()).is_err() {
                            break;
                        }
                    }
                }
            }
        });
        Ok(Worker {
            prop_id: prop_id.to_string(),
            child,
            stdin,
            rx,
        })
    }

    fn respawn(&mut self) {
        let _ = self.child.kill();
        let _ = self.child.wait();
        if let Ok(w) = Worker::spawn(&self.prop_id) {
            *self = w;
        }
    }

    pub fn eval(&mut self, case: &Value, timeout_ms: u64) -> EvalResult {
        let mut s = serde_json::to_string(case).unwrap();
        s.push('\n');
        let ok = match self.stdin.as_mut() {
            Some(si) => si.write_all(s.as_bytes()).and_then(|_| si.flush()).is_ok(),
            None => false,
        };
        if !ok {
            self.respawn();
            return EvalResult::Crash("worker pipe closed before the case was sent".into());
        }
        match self.rx.recv_timeout(Duration::from_millis(timeout_ms)) {
            Ok(line) => match serde_json::from_str::<Outcome>(&line) {
                Ok(o) => EvalResult::Done(o),
                Err(e) => {
                    self.respawn();
                    EvalResult::Crash(format!("unparsable worker answer: {e}"))
                }
            },
            Err(RecvTimeoutError::Timeout) => {
                self.respawn();
                EvalResult::Hang
            }
            Err(RecvTimeoutError::Disconnected) => {
                let status = self.child.wait().ok();
                let msg = format!("worker died: {:?}", status);
                self.respawn();
                EvalResult::Crash(msg)
            }
        }
    }
}

impl Drop for Worker {
    fn drop(&mut self) {
        // closing its input makes the worker leave its loop and exit by itself (so that an
        // instrumented build can write its profile); it is killed if it does not do so promptly
        self.stdin.take();
        for _ in 0..100 {
            match self.child.try_wait() {
                Ok(Some(_)) => return,
                Ok(None) => std::thread::sleep(Duration::from_millis(20)),
                Err(_) => break,
            }
        }
        let _ = self.child.kill();
        let _ = self.child.wait();
    }
}

//! Parent side: replay tier, deterministic extra cases, proptest lanes with shrinking, evidence.

use super::known::KnownFindings;
use super::worker::{EvalResult, Worker};
use super::{Outcome, Prop, Tier, Verdict, hash64, hash_value};
use proptest::test_runner::{Config, RngSeed, TestCaseError, TestError, TestRunner};
use serde_json::{Value, json};
use std::cell::RefCell;
use std::collections::{BTreeMap, HashSet};
use std::path::{Path, PathBuf};
use std::time::Instant;

pub const LANES: usize = 16;

pub struct RunCfg {
    pub root: PathBuf,
    pub tier: Tier,
    pub seed: u64,
}

#[derive(Default)]
struct Stats {
    cases: u64,
    evals: u64,
    discards: BTreeMap<String, u64>,
    classes: BTreeMap<String, u64>,
    nontrivial: HashSet<u64>,
    samples: Vec<Value>,
    excluded_known: BTreeMap<String, u64>,
    slow: u64,
}

impl Stats {
    fn absorb(&mut self, o: &Outcome, case: &Value) {
        self.cases += 1;
        self.evals += o.evals.max(1);
        if let Verdict::Discard { reason } = &o.verdict {
            *self.discards.entry(reason.clone()).or_default() += 1;
        }
        for c in &o.classes {
            *self.classes.entry(c.clone()).or_default() += 1;
        }
        let before = self.nontrivial.len();
        for k in &o.nontrivial {
            self.nontrivial.insert(*k);
        }
        if self.nontrivial.len() > before && self.samples.len() < 2 {
            self.samples
                .push(o.sample.clone().unwrap_or_else(|| truncate_sample(case)));
        }
    }
    fn merge(&mut self, other: Stats) {
        self.cases += other.cases;
        self.evals += other.evals;
        for (k, v) in other.discards {
            *self.discards.entry(k).or_default() += v;
        }
        for (k, v) in other.classes {
            *self.classes.entry(k).or_default() += v;
        }
        self.nontrivial.extend(other.nontrivial);
        for s in other.samples {
            if self.samples.len() < 8 {
                self.samples.push(s);
            }
        }
        for (k, v) in other.excluded_known {
            *self.excluded_known.entry(k).or_default() += v;
        }
        self.slow += other.slow;
    }
}

fn truncate_sample(v: &Value) -> Value {
    let s = v.to_string();
    if s.len() > 4000 {
        json!({"truncated_case_json": s.chars().take(4000).collect::<String>()})
    } else {
        v.clone()
    }
}

#[derive(Clone, Debug)]
pub struct Failure {
    pub lane: usize,
    pub case: Value,
    pub verdict: Verdict,
    pub origin: String,
}

static CONFIRMED_HANGS: std::sync::atomic::AtomicUsize = std::sync::atomic::AtomicUsize::new(0);
use std::sync::atomic::Ordering;

/// Evaluate one case with watchdog + confirmation. Returns the outcome (a hang or crash is
/// converted into a violation outcome) and whether the case was slow-but-finished.
fn eval_confirmed(
    prop: &dyn Prop,
    w: &mut Worker,
    case: &Value,
    timeout_ms: u64,
    confirm: bool,
) -> (Outcome, bool) {
    match w.eval(case, timeout_ms) {
        EvalResult::Done(o) => (o, false),
        EvalResult::Hang => {
            // how many hangs this run has already confirmed with the long limit: once two are
            // on record the verdict of the run is settled, and code that hangs on (nearly)
            // everything would otherwise cost two minutes per case - later confirmations use a
            // 3x limit
            let factor = if CONFIRMED_HANGS.load(Ordering::Relaxed) >= 2 { 3 } else { 10 };
            if confirm {
                // fresh process (the worker was respawned), longer limit
                match w.eval(case, timeout_ms.saturating_mul(factor)) {
                    EvalResult::Done(o) => return (o, true),
                    EvalResult::Hang => {
                        CONFIRMED_HANGS.fetch_add(1, Ordering::Relaxed);
                    }
                    EvalResult::Crash(m) => return (crash_outcome(prop, case, &m), false),
                }
            }
            let mut o = Outcome::new();
            o.evals = 1;
            o.verdict = Verdict::violation(
                "hang",
                prop.abnormal_signature(case, "hang"),
                format!(
                    "no answer within {} ms{}",
                    timeout_ms,
                    if confirm && factor == 10 {
                        " and within 10x that in a fresh process"
                    } else if confirm {
                        " and within 3x that in a fresh process (after two hangs confirmed with 10x)"
                    } else {
                        ""
                    }
                ),
            );
            (o, false)
        }
        EvalResult::Crash(m) => (crash_outcome(prop, case, &m), false),
    }
}

fn crash_outcome(prop: &dyn Prop, case: &Value, m: &str) -> Outcome {
    let mut o = Outcome::new();
    o.evals = 1;
    if prop.crash_is_resource_exhaustion(case) {
        o.discard("worker-died-on-blown-up-grammar");
        return o;
    }
    o.verdict = Verdict::violation("crash", prop.abnormal_signature(case, "crash"), m.to_string());
    o
}

fn lane_seed(seed: u64, prop: &str, lane: usize) -> u64 {
    hash64(&format!("{seed}/{prop}/{lane}"))
}

struct LaneState {
    stats: Stats,
    first_fail: Option<(Value, Verdict)>,
    last_fail: Option<(Value, Verdict)>,
    shrink_started: Option<Instant>,
}

fn run_lane(
    prop: &dyn Prop,
    cfg: &RunCfg,
    known: &KnownFindings,
    lane: usize,
    cases: u32,
    extras: Vec<Value>,
) -> (Stats, Option<Failure>) {
    let mut worker = match Worker::spawn(prop.id()) {
        Ok(w) => w,
        Err(e) => {
            eprintln!("cannot spawn worker: {e}");
            std::process::exit(2);
        }
    };
    let watchdog = prop.watchdog_ms();
    let mut stats = Stats::default();

    // deterministic extra cases first
    for case in extras {
        let (o, slow) = eval_confirmed(prop, &mut worker, &case, watchdog, true);
        if slow {
            stats.slow += 1;
        }
        if let Some(sig) = o.verdict.signature() {
            if let Some(f) = known.matches_open(prop.id(), sig) {
                *stats.excluded_known.entry(f.id.clone()).or_default() += 1;
                continue;
            }
            return (
                stats,
                Some(Failure {
                    lane,
                    case,
                    verdict: o.verdict.clone(),
                    origin: "extra".into(),
                }),
            );
        }
        stats.absorb(&o, &case);
    }
    if cases == 0 {
        return (stats, None);
    }

    let config = Config {
        cases,
        failure_persistence: None,
        rng_seed: RngSeed::Fixed(lane_seed(cfg.seed, prop.id(), lane)),
        max_shrink_iters: prop.max_shrink_iters(),
        max_global_rejects: 1 << 30,
        ..Config::default()
    };
    let mut runner = TestRunner::new(config);
    let len = prop.stream_len(cfg.tier);
    let strategy = proptest::collection::vec(proptest::num::u32::ANY, 0..=len);
    let state = RefCell::new(LaneState {
        stats,
        first_fail: None,
        last_fail: None,
        shrink_started: None,
    });
    let worker = RefCell::new(worker);
    let tier = cfg.tier;
    let shrink_watchdog = (watchdog / 10).clamp(1000, 5000).min(watchdog);

    let result = runner.run(&strategy, |choices| {
        let case = prop.decode(&choices, tier);
        let shrinking = state.borrow().first_fail.is_some();
        // a hang is not worth minimising for long: every candidate that still hangs costs a
        // whole watchdog period; after 45 s the remaining candidates are waved through and the
        // smallest hanging case seen so far is reported
        if shrinking {
            let st = state.borrow();
            let is_hang = matches!(st.first_fail.as_ref().map(|(_, v)| v), Some(Verdict::Violation { kind, .. }) if kind == "hang");
            if is_hang && st.shrink_started.map(|t| t.elapsed().as_secs() > 45).unwrap_or(false) {
                return Ok(());
            }
        }
        let (o, slow) = if shrinking {
            eval_confirmed(prop, &mut worker.borrow_mut(), &case, shrink_watchdog, false)
        } else {
            eval_confirmed(prop, &mut worker.borrow_mut(), &case, watchdog, true)
        };
        let mut st = state.borrow_mut();
        if let Some(sig) = o.verdict.signature() {
            if let Some(f) = known.matches_open(prop.id(), sig) {
                if !shrinking {
                    *st.stats.excluded_known.entry(f.id.clone()).or_default() += 1;
                }
                return Ok(());
            }
            if shrinking {
                // keep shrinking towards the *same* failure
                let same = st
                    .first_fail
                    .as_ref()
                    .and_then(|(_, v)| v.signature().map(|s| s == sig))
                    .unwrap_or(false);
                if !same {
                    return Ok(());
                }
            } else {
                st.first_fail = Some((case.clone(), o.verdict.clone()));
                st.shrink_started = Some(Instant::now());
            }
            st.last_fail = Some((case, o.verdict.clone()));
            return Err(TestCaseError::fail(sig.to_string()));
        }
        if !shrinking {
            if slow {
                st.stats.slow += 1;
            }
            st.stats.absorb(&o, &case);
        }
        Ok(())
    });

    let LaneState {
        stats,
        first_fail,
        last_fail,
        ..
    } = state.into_inner();
    let mut worker = worker.into_inner();
    match result {
        Ok(()) => (stats, None),
        Err(TestError::Fail(_, minimal)) => {
            // Re-judge the minimal case with the full watchdog; fall back to the smallest case
            // that was seen failing, then to the first failure.
            let mcase = prop.decode(&minimal, tier);
            let (o, _) = eval_confirmed(prop, &mut worker, &mcase, watchdog, true);
            let first_sig = first_fail
                .as_ref()
                .and_then(|(_, v)| v.signature().map(|s| s.to_string()));
            let chosen = if o.verdict.is_violation()
                && o.verdict.signature().map(|s| s.to_string()) == first_sig
            {
                (mcase, o.verdict)
            } else if let Some((c, _)) = &last_fail {
                let (o2, _) = eval_confirmed(prop, &mut worker, c, watchdog, true);
                if o2.verdict.is_violation() {
                    (c.clone(), o2.verdict)
                } else {
                    first_fail.clone().unwrap()
                }
            } else {
                first_fail.clone().unwrap()
            };
            (
                stats,
                Some(Failure {
                    lane,
                    case: chosen.0,
                    verdict: chosen.1,
                    origin: "generated".into(),
                }),
            )
        }
        Err(TestError::Abort(r)) => {
            eprintln!("lane {lane}: proptest aborted: {r}");
            std::process::exit(2);
        }
    }
}

fn write_failure(root: &Path, prop: &dyn Prop, cfg: &RunCfg, f: &Failure) -> PathBuf {
    let dir = root.join("work").join("violations");
    let _ = std::fs::create_dir_all(&dir);
    let h = hash_value(&f.case);
    let path = dir.join(format!("{}-{:016x}.json", prop.id(), h));
    let (kind, signature, detail) = match &f.verdict {
        Verdict::Violation {
            kind,
            signature,
            detail,
        } => (kind.clone(), signature.clone(), detail.clone()),
        _ => ("?".into(), "?".into(), "?".into()),
    };
    let v = json!({
        "property": prop.id(),
        "seed": cfg.seed,
        "tier": cfg.tier.name(),
        "lane": f.lane,
        "origin": f.origin,
        "kind": kind,
        "signature": signature,
        "detail": detail,
        "case": f.case,
    });
    std::fs::write(&path, serde_json::to_string_pretty(&v).unwrap()).unwrap();
    path
}

/// Runs the whole check; returns the process exit code.
pub fn run_check(prop: &dyn Prop, cfg: &RunCfg) -> i32 {
    let t0 = Instant::now();
    let known = KnownFindings::load(&cfg.root);
    let mut total = Stats::default();
    let mut failures: Vec<(Failure, Option<PathBuf>)> = vec![];
    let mut known_lines: Vec<String> = vec![];
    let mut replayed = 0u64;

    // 1. replay tier
    let rdir = cfg.root.join("replays").join(prop.id());
    let mut files: Vec<PathBuf> = std::fs::read_dir(&rdir)
        .map(|d| {
            d.filter_map(|e| e.ok().map(|e| e.path()))
                .filter(|p| p.extension().map(|e| e == "json").unwrap_or(false))
                .collect()
        })
        .unwrap_or_default();
    files.sort();
    if !files.is_empty() {
        let mut cases: Vec<(PathBuf, Value)> = vec![];
        for p in &files {
            let Ok(txt) = std::fs::read_to_string(p) else {
                continue;
            };
            let Ok(v) = serde_json::from_str::<Value>(&txt) else {
                eprintln!("unreadable replay file {}", p.display());
                return 2;
            };
            cases.push((p.clone(), v.get("case").cloned().unwrap_or(Value::Null)));
        }
        // evaluated by up to eight workers side by side (a saved input that hangs costs minutes),
        // judged in file order
        let nthreads = cases.len().min(8).max(1);
        let outcomes: Vec<Outcome> = std::thread::scope(|s| {
            let handles: Vec<_> = (0..nthreads)
                .map(|t| {
                    let cases = &cases;
                    s.spawn(move || {
                        let mut w = Worker::spawn(prop.id()).expect("spawn worker");
                        let mut out = vec![];
                        for (i, (_, case)) in cases.iter().enumerate() {
                            if i % nthreads == t {
                                out.push((i, eval_confirmed(prop, &mut w, case, prop.watchdog_ms(), true).0));
                            }
                        }
                        out
                    })
                })
                .collect();
            let mut all: Vec<(usize, Outcome)> = handles.into_iter().flat_map(|h| h.join().unwrap()).collect();
            all.sort_by_key(|(i, _)| *i);
            all.into_iter().map(|(_, o)| o).collect()
        });
        for ((p, case), o) in cases.into_iter().zip(outcomes) {
            replayed += 1;
            if let Some(sig) = o.verdict.signature() {
                if let Some(f) = known.matches_open(prop.id(), sig) {
                    let line = format!("KNOWN-FINDING: property={} {}", prop.id(), f.what);
                    if !known_lines.contains(&line) {
                        known_lines.push(line);
                    }
                } else {
                    failures.push((
                        Failure {
                            lane: 0,
                            case,
                            verdict: o.verdict.clone(),
                            origin: format!("replay:{}", p.display()),
                        },
                        Some(p.clone()),
                    ));
                }
            } else {
                total.absorb(&o, &case);
            }
        }
    }

    // 2 + 3. extras and random lanes
    let extras = prop.extra_cases(cfg.tier, cfg.seed);
    let mut per_lane_extras: Vec<Vec<Value>> = (0..LANES).map(|_| vec![]).collect();
    for (i, e) in extras.into_iter().enumerate() {
        per_lane_extras[i % LANES].push(e);
    }
    let cases_total = prop.cases(cfg.tier);
    let per_lane = cases_total / LANES as u32;
    let rem = cases_total % LANES as u32;
    let results: Vec<(Stats, Option<Failure>)> = std::thread::scope(|s| {
        let handles: Vec<_> = per_lane_extras
            .into_iter()
            .enumerate()
            .map(|(lane, extras)| {
                let known = &known;
                let n = per_lane + if (lane as u32) < rem { 1 } else { 0 };
                s.spawn(move || run_lane(prop, cfg, known, lane, n, extras))
            })
            .collect();
        handles.into_iter().map(|h| h.join().unwrap()).collect()
    });
    for (st, f) in results {
        total.merge(st);
        if let Some(f) = f {
            failures.push((f, None));
        }
    }

    // 3b. coverage-guided stage (thorough tier, or GTV_FUZZ_RUNS=<n> for a trial)
    let mut fuzz_report = json!({"available": false, "reason": "not part of this tier"});
    let trial_runs = std::env::var("GTV_FUZZ_RUNS").ok().and_then(|x| x.parse::<u64>().ok());
    if let Some(target) = prop.fuzz_target() {
        if failures.is_empty() && (cfg.tier.name() == "thorough" || trial_runs.is_some()) {
            let runs = trial_runs.unwrap_or_else(|| prop.fuzz_runs());
            let fo = super::fuzzstage::run(&cfg.root, prop, target, cfg.seed, runs);
            fuzz_report = fo.report;
            let mut confirmed = 0u64;
            let mut not_confirmed = 0u64;
            if !fo.artifacts.is_empty() {
                let mut w = Worker::spawn(prop.id()).expect("spawn worker");
                for (path, case) in fo.artifacts {
                    let (o, _) = eval_confirmed(prop, &mut w, &case, prop.watchdog_ms(), true);
                    if let Some(sig) = o.verdict.signature() {
                        if let Some(f) = known.matches_open(prop.id(), sig) {
                            *total.excluded_known.entry(f.id.clone()).or_default() += 1;
                            continue;
                        }
                        if matches!(&o.verdict, Verdict::Violation { kind, .. } if kind == "harness") {
                            not_confirmed += 1;
                            continue;
                        }
                        confirmed += 1;
                        if failures.len() < 4 {
                            failures.push((
                                Failure {
                                    lane: 0,
                                    case,
                                    verdict: o.verdict.clone(),
                                    origin: format!("fuzz:{}", path.display()),
                                },
                                None,
                            ));
                        }
                    } else {
                        // libFuzzer stopped on it (its own time or memory limit, or a violation
                        // that does not reproduce in a fresh worker): no verdict
                        not_confirmed += 1;
                        total.absorb(&o, &case);
                    }
                }
            }
            fuzz_report["artifacts_confirmed_as_violations"] = json!(confirmed);
            fuzz_report["artifacts_not_confirmed"] = json!(not_confirmed);
        }
    }

    // 4. verdict
    let mut exit = 0;
    let mut violation_lines = vec![];
    for (f, p) in &failures {
        let path = match p {
            Some(p) => p.clone(),
            None => write_failure(&cfg.root, prop, cfg, f),
        };
        violation_lines.push((path, f.clone()));
    }
    // generator health
    let mut missing = vec![];
    for c in prop.required_classes(cfg.tier) {
        if !total.classes.contains_key(c) {
            missing.push(c);
        }
    }

    let wall = t0.elapsed().as_secs_f64();
    let mut samples = total.samples.clone();
    if samples.is_empty() {
        samples.push(json!("no non-trivial case was produced"));
    }
    let evidence = json!({
        "property_id": prop.id(),
        "tier": cfg.tier.name(),
        "seed": cfg.seed,
        "level": prop.level(),
        "coverage": {
            "evaluations": total.evals,
            "distinct_nontrivial": total.nontrivial.len(),
            "rule": prop.rule(),
            "samples": samples,
            "cases": total.cases,
            "classes": total.classes,
            "discards": total.discards,
            "excluded_known": total.excluded_known,
            "slow_but_finished": total.slow,
            "lanes": LANES,
            "replayed": replayed,
            "missing_required_classes": missing,
            "fuzz": fuzz_report,
        },
        "assumptions": prop.assumptions(),
        "wall_s": wall,
        "violations": violation_lines.len(),
    });
    let edir = cfg.root.join("evidence");
    let _ = std::fs::create_dir_all(&edir);
    std::fs::write(
        edir.join(format!("{}.json", prop.id())),
        serde_json::to_string_pretty(&evidence).unwrap(),
    )
    .unwrap();

    for l in &known_lines {
        println!("{l}");
    }
    for f in known.open_for(prop.id()) {
        let line = format!("KNOWN-FINDING: property={} {}", prop.id(), f.what);
        if !known_lines.contains(&line) {
            // listed as open but its stored replay no longer fails (or has no replay file)
            eprintln!(
                "note: open finding {} did not reproduce from its replay file in this run",
                f.id
            );
        }
    }
    let harness_trouble = violation_lines.iter().any(|(_, f)| {
        matches!(&f.verdict, Verdict::Violation { kind, .. } if kind == "harness")
    });
    if harness_trouble {
        for (_, f) in &violation_lines {
            eprintln!("harness error: {:?}", f.verdict);
        }
        eprintln!("infrastructure error inside the harness: no verdict");
        exit = 2;
    } else if !violation_lines.is_empty() {
        violation_lines.sort_by_key(|(_, f)| f.lane);
        for (path, f) in violation_lines.iter().take(4) {
            if let Verdict::Violation {
                kind,
                signature,
                detail,
            } = &f.verdict
            {
                eprintln!(
                    "violation ({}): kind={} signature={} detail={}",
                    f.origin,
                    kind,
                    signature,
                    detail.chars().take(600).collect::<String>()
                );
            }
            println!(
                "VIOLATION property={} replay={}",
                prop.id(),
                path.display()
            );
        }
        exit = 1;
    } else if !missing.is_empty() {
        eprintln!(
            "generator-health error: required classes never produced: {:?}",
            missing
        );
        exit = 2;
    }
    println!(
        "{} {} seed={} cases={} evaluations={} distinct_nontrivial={} excluded_known={:?} discards={:?} wall={:.1}s exit={}",
        prop.id(),
        cfg.tier.name(),
        cfg.seed,
        total.cases,
        total.evals,
        total.nontrivial.len(),
        total.excluded_known,
        total.discards,
        wall,
        exit
    );
    exit
}

pub fn run_replay(prop: &dyn Prop, file: &Path) -> i32 {
    let txt = std::fs::read_to_string(file).expect("read replay file");
    let v: Value = serde_json::from_str(&txt).expect("parse replay file");
    let case = v.get("case").cloned().unwrap_or(Value::Null);
    let mut w = Worker::spawn(prop.id()).expect("spawn worker");
    let (o, _) = eval_confirmed(prop, &mut w, &case, prop.watchdog_ms(), true);
    println!("{}", serde_json::to_string_pretty(&o.verdict).unwrap());
    if o.verdict.is_violation() {
        println!(
            "VIOLATION property={} replay={}",
            prop.id(),
            file.display()
        );
        1
    } else {
        0
    }
}

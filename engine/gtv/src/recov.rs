//! Reference semantics of repair sequences ("replay semantics"), defined over the public table
//! API only: starting from the parse stack and input index at which an error was reported,
//! `Insert(t)` = a plain LR parse of the single token t (reductions, then shift) must succeed;
//! `Delete` = the next input lexeme is dropped; `Shift` = a plain LR parse of the next real lexeme
//! must succeed. Plus an exhaustive uniform-cost enumeration of all minimum-cost repairs (C06).

use crate::harness::{Built, EOF_TOK, Rep};
use cfgrammar::TIdx;
use lrtable::{Action, StIdx};
use std::collections::BTreeSet;

pub type Stack = Vec<StIdx<u32>>;

const RED_LIMIT: usize = 100_000;

/// Plain LR parse of one token (implementation token index): reductions, then the shift.
pub fn step_token(b: &Built<u32>, stack: &mut Stack, tidx: TIdx<u32>) -> bool {
    for _ in 0..RED_LIMIT {
        match b.st.action(*stack.last().unwrap(), tidx) {
            Action::Shift(s) => {
                stack.push(s);
                return true;
            }
            Action::Reduce(p) => {
                let n = b.grm.prod(p).len();
                stack.truncate(stack.len() - n);
                let g = b.st.goto(*stack.last().unwrap(), b.grm.prod_to_rule(p)).unwrap();
                stack.push(g);
            }
            Action::Accept | Action::Error => return false,
        }
    }
    false
}

/// Does a plain parse accept from here when the input is exhausted?
pub fn accepts_at_eof(b: &Built<u32>, stack: &Stack) -> bool {
    let mut st = stack.clone();
    let eof = b.grm.eof_token_idx();
    for _ in 0..RED_LIMIT {
        match b.st.action(*st.last().unwrap(), eof) {
            Action::Accept => return true,
            Action::Reduce(p) => {
                let n = b.grm.prod(p).len();
                st.truncate(st.len() - n);
                let g = b.st.goto(*st.last().unwrap(), b.grm.prod_to_rule(p)).unwrap();
                st.push(g);
            }
            _ => return false,
        }
    }
    false
}

pub fn tok_at(b: &Built<u32>, input: &[usize], i: usize) -> TIdx<u32> {
    if i < input.len() {
        b.tok[input[i]]
    } else {
        b.grm.eof_token_idx()
    }
}

/// How far (index of the first lexeme that cannot be shifted; `input.len() + 1` if the parse
/// accepts) a plain parse continues from (stack, i).
pub fn parse_distance(b: &Built<u32>, stack: &Stack, input: &[usize], i: usize, upto: usize) -> usize {
    let mut st = stack.clone();
    let mut i = i;
    while i < input.len() && i < upto {
        if !step_token(b, &mut st, b.tok[input[i]]) {
            return i;
        }
        i += 1;
    }
    if i == input.len() && accepts_at_eof(b, &st) {
        return input.len() + 1;
    }
    i
}

#[derive(Clone, Copy, Debug, PartialEq, Eq, PartialOrd, Ord, Hash)]
pub enum Mv {
    /// implementation token index
    Ins(u32),
    Del,
    Shf,
}

/// Apply one move under replay semantics.
pub fn apply_move(b: &Built<u32>, stack: &mut Stack, input: &[usize], i: &mut usize, m: Mv) -> bool {
    match m {
        Mv::Ins(t) => step_token(b, stack, TIdx(t)),
        Mv::Del => {
            if *i >= input.len() {
                return false;
            }
            *i += 1;
            true
        }
        Mv::Shf => {
            if *i >= input.len() {
                return false;
            }
            if !step_token(b, stack, b.tok[input[*i]]) {
                return false;
            }
            *i += 1;
            true
        }
    }
}

/// Convert a reported sequence into moves, checking well-formedness against the input layout:
/// Delete/Shift lexemes must be exactly the input lexemes e, e+1, ... in order.
pub fn to_moves(
    b: &Built<u32>,
    seq: &[Rep],
    starts: &[usize],
    e: usize,
) -> Result<Vec<Mv>, String> {
    let mut i = e;
    let mut out = vec![];
    for r in seq {
        match r {
            Rep::Insert(t) => {
                if *t == EOF_TOK {
                    out.push(Mv::Ins(u32::from(b.grm.eof_token_idx())));
                } else if *t == usize::MAX {
                    return Err("insert of an unknown token".into());
                } else {
                    out.push(Mv::Ins(u32::from(b.tok[*t])));
                }
            }
            Rep::Delete(s) | Rep::Shift(s) => {
                if i >= starts.len() || starts[i] != *s {
                    return Err(format!(
                        "{r:?} does not refer to input lexeme {i} (which starts at {:?})",
                        starts.get(i)
                    ));
                }
                out.push(if matches!(r, Rep::Delete(_)) { Mv::Del } else { Mv::Shf });
                i += 1;
            }
        }
    }
    Ok(out)
}

/// Replay a whole sequence; returns the resulting configuration if every move succeeds.
pub fn replay(b: &Built<u32>, stack: &Stack, input: &[usize], i: usize, moves: &[Mv]) -> Option<(Stack, usize)> {
    let mut st = stack.clone();
    let mut i = i;
    for m in moves {
        if !apply_move(b, &mut st, input, &mut i, *m) {
            return None;
        }
    }
    Some((st, i))
}

/// "Lets a plain LR parse continue without error over at least the next three input lexemes or
/// to acceptance".
pub fn repairs_ok(b: &Built<u32>, stack: &Stack, input: &[usize], i: usize) -> bool {
    let d = parse_distance(b, stack, input, i, i + 3);
    d >= i + 3 || d == input.len() + 1
}

pub fn cost_of(moves: &[Mv], input: &[usize], e: usize, cost_by_tidx: &[u8], b: &Built<u32>) -> u64 {
    let mut i = e;
    let mut c = 0u64;
    for m in moves {
        match m {
            Mv::Ins(t) => c += cost_by_tidx[*t as usize] as u64,
            Mv::Del => {
                c += cost_by_tidx[usize::from(b.tok[input[i]])] as u64;
                i += 1;
            }
            Mv::Shf => i += 1,
        }
    }
    c
}

/// The implementation's ranking measure: index reached by a plain parse (acceptance and an
/// error at end of input both count as having parsed every lexeme).
pub fn rank_distance(b: &Built<u32>, stack: &Stack, input: &[usize], i: usize, upto: usize) -> usize {
    parse_distance(b, stack, input, i, upto).min(input.len())
}

pub struct SearchResult {
    pub cstar: u64,
    /// minimum-cost successful sequences with trailing shifts stripped, ranked maximal when the
    /// continuation is probed for at most 250 lexemes from the error (what the implementation
    /// documents): the largest set that may be reported
    pub expect: BTreeSet<Vec<Mv>>,
    /// ... ranked maximal when the continuation is followed to the end of the input: these
    /// must all be reported
    pub expect_uncapped: BTreeSet<Vec<Mv>>,
    /// all minimum-cost successful sequences (stripped), any rank
    pub all_min: BTreeSet<Vec<Mv>>,
    pub nodes: usize,
}

fn trailing_shifts(seq: &[Mv]) -> usize {
    seq.iter().rev().take_while(|m| matches!(m, Mv::Shf)).count()
}

fn is_success(b: &Built<u32>, stack: &Stack, input: &[usize], i: usize, seq: &[Mv]) -> bool {
    if trailing_shifts(seq) >= 3 {
        return true;
    }
    i == input.len() && accepts_at_eof(b, stack)
}

/// Exhaustive enumeration by increasing cost. `None` if the node budget is exceeded or no
/// success exists within `max_cost`.
pub fn repair_search(
    b: &Built<u32>,
    stack0: &Stack,
    input: &[usize],
    e: usize,
    cost_by_tidx: &[u8],
    max_cost: u64,
    node_budget: usize,
) -> Option<SearchResult> {
    // buckets by cost; each entry: (stack, i, sequence)
    let mut buckets: Vec<Vec<(Stack, usize, Vec<Mv>)>> = vec![vec![(stack0.clone(), e, vec![])]];
    let eof = b.grm.eof_token_idx();
    let mut nodes = 0usize;
    let mut c = 0usize;
    loop {
        if c >= buckets.len() || c as u64 > max_cost {
            return None;
        }
        // process bucket c to a fixed point (shifts cost nothing and stay in the bucket)
        let mut successes: Vec<(Stack, usize, Vec<Mv>)> = vec![];
        let mut idx = 0;
        while idx < buckets[c].len() {
            let (st, i, seq) = buckets[c][idx].clone();
            idx += 1;
            nodes += 1;
            if nodes > node_budget {
                return None;
            }
            if is_success(b, &st, input, i, &seq) {
                successes.push((st, i, seq));
                continue; // no successful proper prefix
            }
            // shift
            {
                let mut st2 = st.clone();
                let mut i2 = i;
                if apply_move(b, &mut st2, input, &mut i2, Mv::Shf) {
                    let mut s2 = seq.clone();
                    s2.push(Mv::Shf);
                    buckets[c].push((st2, i2, s2));
                }
            }
            // delete
            if i < input.len() {
                let dc = c + cost_by_tidx[usize::from(b.tok[input[i]])] as usize;
                while buckets.len() <= dc {
                    buckets.push(vec![]);
                }
                let mut s2 = seq.clone();
                s2.push(Mv::Del);
                buckets[dc].push((st.clone(), i + 1, s2));
            }
            // insert (never directly after a delete, never end-of-input)
            if !matches!(seq.last(), Some(Mv::Del)) {
                for t in b.grm.iter_tidxs() {
                    if t == eof {
                        continue;
                    }
                    let mut st2 = st.clone();
                    if step_token(b, &mut st2, t) {
                        let ic = c + cost_by_tidx[usize::from(t)] as usize;
                        while buckets.len() <= ic {
                            buckets.push(vec![]);
                        }
                        let mut s2 = seq.clone();
                        s2.push(Mv::Ins(u32::from(t)));
                        buckets[ic].push((st2, i, s2));
                    }
                }
            }
        }
        if !successes.is_empty() {
            let mut best = 0usize;
            let mut best_u = 0usize;
            let mut ranked: Vec<(usize, usize, Vec<Mv>)> = vec![];
            for (st, i, seq) in successes {
                let d = rank_distance(b, &st, input, i, e + 250);
                let du = rank_distance(b, &st, input, i, usize::MAX);
                best = best.max(d);
                best_u = best_u.max(du);
                let mut s = seq;
                while matches!(s.last(), Some(Mv::Shf)) {
                    s.pop();
                }
                ranked.push((d, du, s));
            }
            let all_min: BTreeSet<Vec<Mv>> = ranked.iter().map(|(_, _, s)| s.clone()).collect();
            let expect: BTreeSet<Vec<Mv>> = ranked.iter().filter(|(d, _, _)| *d == best).map(|(_, _, s)| s.clone()).collect();
            let expect_uncapped: BTreeSet<Vec<Mv>> = ranked.iter().filter(|(_, du, _)| *du == best_u).map(|(_, _, s)| s.clone()).collect();
            return Some(SearchResult {
                cstar: c as u64,
                expect,
                expect_uncapped,
                all_min,
                nodes,
            });
        }
        c += 1;
    }
}

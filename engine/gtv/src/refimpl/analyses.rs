//! Textbook grammar analyses on the AG, written as graph closures / relaxations, ordered
//! collections only. Token index `nt` (= number of tokens) stands for end-of-input where needed.

use crate::genr::grammar::{AG, Sym};
use std::collections::BTreeSet;

pub struct Analyses {
    pub nullable: Vec<bool>,
    pub productive: Vec<bool>,
    pub reachable: Vec<bool>,
}

pub fn nullable(ag: &AG) -> Vec<bool> {
    // A is nullable iff there is a production all of whose symbols are nullable rules.
    let n = ag.rules.len();
    let mut nul = vec![false; n];
    let mut changed = true;
    while changed {
        changed = false;
        for i in 0..n {
            if !nul[i]
                && ag.rules[i]
                    .prods
                    .iter()
                    .any(|p| p.syms.iter().all(|s| matches!(s, Sym::R(j) if nul[*j])))
            {
                nul[i] = true;
                changed = true;
            }
        }
    }
    nul
}

pub fn productive(ag: &AG) -> Vec<bool> {
    let n = ag.rules.len();
    let mut ok = vec![false; n];
    let mut changed = true;
    while changed {
        changed = false;
        for i in 0..n {
            if !ok[i]
                && ag.rules[i].prods.iter().any(|p| {
                    p.syms.iter().all(|s| match s {
                        Sym::T(_) => true,
                        Sym::R(j) => ok[*j],
                    })
                })
            {
                ok[i] = true;
                changed = true;
            }
        }
    }
    ok
}

/// Rules reachable from the start rule through productions (start itself included).
pub fn reachable(ag: &AG) -> Vec<bool> {
    let n = ag.rules.len();
    let mut seen = vec![false; n];
    let mut todo = vec![ag.start];
    seen[ag.start] = true;
    while let Some(r) = todo.pop() {
        for p in &ag.rules[r].prods {
            for s in &p.syms {
                if let Sym::R(j) = s {
                    if !seen[*j] {
                        seen[*j] = true;
                        todo.push(*j);
                    }
                }
            }
        }
    }
    seen
}

pub fn analyses(ag: &AG) -> Analyses {
    Analyses {
        nullable: nullable(ag),
        productive: productive(ag),
        reachable: reachable(ag),
    }
}

/// `path[a][b]`: b occurs in some production of a rule reachable from a in >= 1 step.
pub fn has_path(ag: &AG) -> Vec<Vec<bool>> {
    let n = ag.rules.len();
    let mut m = vec![vec![false; n]; n];
    for (i, r) in ag.rules.iter().enumerate() {
        for p in &r.prods {
            for s in &p.syms {
                if let Sym::R(j) = s {
                    m[i][*j] = true;
                }
            }
        }
    }
    for k in 0..n {
        for i in 0..n {
            if m[i][k] {
                for j in 0..n {
                    if m[k][j] {
                        m[i][j] = true;
                    }
                }
            }
        }
    }
    m
}

/// FIRST sets.
/// `sentential == true`: tokens that can begin a *sentential form* derived from the rule (symbols
/// that derive no terminal string still count as derivable context).
/// `sentential == false`: tokens that can begin a *terminal string* derived from the rule (only
/// productions all of whose symbols are productive take part).
pub fn firsts(ag: &AG, sentential: bool) -> Vec<BTreeSet<usize>> {
    let n = ag.rules.len();
    let nul = nullable(ag);
    let prod = productive(ag);
    // begins-with relation: A -> X  if A: alpha X beta, alpha nullable
    let mut direct: Vec<BTreeSet<usize>> = vec![BTreeSet::new(); n];
    let mut begins: Vec<BTreeSet<usize>> = vec![BTreeSet::new(); n];
    for (i, r) in ag.rules.iter().enumerate() {
        for p in &r.prods {
            if !sentential
                && !p.syms.iter().all(|s| match s {
                    Sym::T(_) => true,
                    Sym::R(j) => prod[*j],
                })
            {
                continue;
            }
            for s in &p.syms {
                match s {
                    Sym::T(t) => {
                        direct[i].insert(*t);
                        break;
                    }
                    Sym::R(j) => {
                        begins[i].insert(*j);
                        if !nul[*j] {
                            break;
                        }
                    }
                }
            }
        }
    }
    // closure
    let mut out = direct.clone();
    let mut changed = true;
    while changed {
        changed = false;
        for i in 0..n {
            let bs: Vec<usize> = begins[i].iter().cloned().collect();
            for j in bs {
                let add: Vec<usize> = out[j].iter().cloned().collect();
                for t in add {
                    if out[i].insert(t) {
                        changed = true;
                    }
                }
            }
        }
    }
    out
}

/// FIRST of a symbol string (with the FIRST sets given), returns (set, nullable).
fn first_of_seq(
    seq: &[Sym],
    first: &[BTreeSet<usize>],
    nul: &[bool],
) -> (BTreeSet<usize>, bool) {
    let mut out = BTreeSet::new();
    for s in seq {
        match s {
            Sym::T(t) => {
                out.insert(*t);
                return (out, false);
            }
            Sym::R(j) => {
                out.extend(first[*j].iter().cloned());
                if !nul[*j] {
                    return (out, false);
                }
            }
        }
    }
    (out, true)
}

/// FOLLOW sets; end of input is token index `ag.tokens.len()`.
/// `sentential == true`: in sentential forms derivable from the start rule (every rule and
/// production counts, productive or not).
/// `sentential == false`: only contexts that can be completed to terminal strings (productions
/// containing an unproductive symbol are ignored) - the terminal-string reading.
/// Unreachable rules get what their own contexts give them (the usual fixed-point definition
/// does not look at reachability); `reachable_only` restricts the contexts to reachable rules.
pub fn follows(ag: &AG, sentential: bool, reachable_only: bool) -> Vec<BTreeSet<usize>> {
    let n = ag.rules.len();
    let eof = ag.tokens.len();
    let nul = nullable(ag);
    let prod = productive(ag);
    let reach = reachable(ag);
    let first = firsts(ag, sentential);
    let mut fol: Vec<BTreeSet<usize>> = vec![BTreeSet::new(); n];
    fol[ag.start].insert(eof);
    let mut changed = true;
    while changed {
        changed = false;
        for (i, r) in ag.rules.iter().enumerate() {
            if reachable_only && !reach[i] {
                continue;
            }
            for p in &r.prods {
                if !sentential
                    && !p.syms.iter().all(|s| match s {
                        Sym::T(_) => true,
                        Sym::R(j) => prod[*j],
                    })
                {
                    continue;
                }
                for (k, s) in p.syms.iter().enumerate() {
                    if let Sym::R(b) = s {
                        let (f, rest_nullable) = first_of_seq(&p.syms[k + 1..], &first, &nul);
                        for t in f {
                            if fol[*b].insert(t) {
                                changed = true;
                            }
                        }
                        if rest_nullable {
                            let add: Vec<usize> = fol[i].iter().cloned().collect();
                            for t in add {
                                if fol[*b].insert(t) {
                                    changed = true;
                                }
                            }
                        }
                    }
                }
            }
        }
    }
    fol
}

pub const INF: u64 = u64::MAX / 4;

/// Least cost of a terminal string derivable from each rule (INF if unproductive): relaxation
/// from infinity (Bellman-Ford style), no assumption about cycles.
pub fn min_costs(ag: &AG, cost: &[u8]) -> Vec<u64> {
    let n = ag.rules.len();
    let mut c = vec![INF; n];
    let mut changed = true;
    while changed {
        changed = false;
        for (i, r) in ag.rules.iter().enumerate() {
            for p in &r.prods {
                let mut sum = 0u64;
                for s in &p.syms {
                    sum = sum.saturating_add(match s {
                        Sym::T(t) => cost[*t] as u64,
                        Sym::R(j) => c[*j],
                    });
                    if sum >= INF {
                        sum = INF;
                        break;
                    }
                }
                if sum < c[i] {
                    c[i] = sum;
                    changed = true;
                }
            }
        }
    }
    c
}

/// Greatest cost of a terminal string derivable from each rule; `None` = unbounded.
/// Only meaningful on reduced, derivation-cycle-free grammars with all costs > 0 (the caller
/// restricts the assertion to those): a rule is unbounded iff it reaches a rule that lies on a
/// cycle of the "occurs in a production of" graph restricted to productive productions.
/// Unproductive rules get `Some(0)`-like junk and must not be judged by the caller.
pub fn max_costs(ag: &AG, cost: &[u8]) -> Vec<Option<u64>> {
    let n = ag.rules.len();
    let prod = productive(ag);
    // graph over productive productions only
    let mut m = vec![vec![false; n]; n];
    for (i, r) in ag.rules.iter().enumerate() {
        for p in &r.prods {
            let ok = p.syms.iter().all(|s| match s {
                Sym::T(_) => true,
                Sym::R(j) => prod[*j],
            });
            if !ok {
                continue;
            }
            for s in &p.syms {
                if let Sym::R(j) = s {
                    m[i][*j] = true;
                }
            }
        }
    }
    let mut reach = m.clone();
    for k in 0..n {
        for i in 0..n {
            if reach[i][k] {
                for j in 0..n {
                    if reach[k][j] {
                        reach[i][j] = true;
                    }
                }
            }
        }
    }
    let on_cycle: Vec<bool> = (0..n).map(|i| reach[i][i]).collect();
    let unbounded: Vec<bool> = (0..n)
        .map(|i| on_cycle[i] || (0..n).any(|j| reach[i][j] && on_cycle[j]))
        .collect();
    // longest path on the acyclic remainder, by memoised recursion
    fn go(
        i: usize,
        ag: &AG,
        cost: &[u8],
        prod: &[bool],
        unb: &[bool],
        memo: &mut Vec<Option<u64>>,
    ) -> u64 {
        if let Some(v) = memo[i] {
            return v;
        }
        let mut best = 0u64;
        for p in &ag.rules[i].prods {
            let ok = p.syms.iter().all(|s| match s {
                Sym::T(_) => true,
                Sym::R(j) => prod[*j],
            });
            if !ok {
                continue;
            }
            let mut sum = 0u64;
            for s in &p.syms {
                sum += match s {
                    Sym::T(t) => cost[*t] as u64,
                    Sym::R(j) => {
                        if unb[*j] {
                            0
                        } else {
                            go(*j, ag, cost, prod, unb, memo)
                        }
                    }
                };
            }
            best = best.max(sum);
        }
        memo[i] = Some(best);
        best
    }
    let mut memo = vec![None; n];
    (0..n)
        .map(|i| {
            if unbounded[i] {
                None
            } else {
                Some(go(i, ag, cost, &prod, &unbounded, &mut memo))
            }
        })
        .collect()
}

/// True iff every rule is productive and reachable.
pub fn is_reduced(ag: &AG) -> bool {
    let a = analyses(ag);
    a.productive.iter().all(|x| *x) && a.reachable.iter().all(|x| *x)
}

//! Canonical LR(1) automaton on the AG (no merging), LALR(1) by core merging (classification
//! only), conflict detection without precedence, and a small table-driven LR driver.

use super::analyses::nullable;
use crate::genr::grammar::{AG, Sym};
use std::collections::{BTreeMap, BTreeSet};

/// Flat production numbering: rule order, then production order; the augmented production
/// `S' -> start` has index `nprods`.
pub struct Flat {
    pub prods: Vec<(usize, Vec<Sym>)>,
    pub rule_prods: Vec<Vec<usize>>,
    pub aug: usize,
    pub eof: usize,
}

pub fn flatten(ag: &AG) -> Flat {
    let mut prods = vec![];
    let mut rule_prods = vec![];
    for (ri, r) in ag.rules.iter().enumerate() {
        let mut v = vec![];
        for p in &r.prods {
            v.push(prods.len());
            prods.push((ri, p.syms.clone()));
        }
        rule_prods.push(v);
    }
    let aug = prods.len();
    prods.push((usize::MAX, vec![Sym::R(ag.start)]));
    Flat {
        prods,
        rule_prods,
        aug,
        eof: ag.tokens.len(),
    }
}

pub type Item1 = (usize, usize, usize); // prod, dot, lookahead token
pub type State1 = BTreeSet<Item1>;

#[derive(Clone, Copy, Debug, PartialEq, Eq, PartialOrd, Ord)]
pub enum Act {
    Shift(usize),
    Reduce(usize),
    Accept,
}

pub struct Lr1 {
    pub flat: Flat,
    pub states: Vec<State1>,
    pub edges: Vec<BTreeMap<Sym, usize>>,
    /// all candidate actions per (state, token)
    pub cands: Vec<BTreeMap<usize, BTreeSet<Act>>>,
}

pub struct FirstInfo {
    pub nul: Vec<bool>,
    pub first: Vec<BTreeSet<usize>>,
}

pub fn first_info(ag: &AG) -> FirstInfo {
    FirstInfo {
        nul: nullable(ag),
        first: super::analyses::firsts(ag, true),
    }
}

pub fn first_of(seq: &[Sym], la: usize, fi: &FirstInfo) -> BTreeSet<usize> {
    let mut out = BTreeSet::new();
    for s in seq {
        match s {
            Sym::T(t) => {
                out.insert(*t);
                return out;
            }
            Sym::R(j) => {
                out.extend(fi.first[*j].iter().cloned());
                if !fi.nul[*j] {
                    return out;
                }
            }
        }
    }
    out.insert(la);
    out
}

pub fn closure1(flat: &Flat, fi: &FirstInfo, core: &State1) -> State1 {
    let mut set = core.clone();
    let mut todo: Vec<Item1> = core.iter().cloned().collect();
    while let Some((p, d, la)) = todo.pop() {
        let syms = &flat.prods[p].1;
        if d < syms.len() {
            if let Sym::R(b) = syms[d] {
                let las = first_of(&syms[d + 1..], la, fi);
                for &bp in &flat.rule_prods[b] {
                    for &l in &las {
                        let it = (bp, 0, l);
                        if set.insert(it) {
                            todo.push(it);
                        }
                    }
                }
            }
        }
    }
    set
}

/// Closure in the set formulation the implementation uses: an item is a (production, dot) pair with
/// a lookahead *set*, `[A -> a . B b, L]` contributes `[B -> . c, FIRST(b) + (L if b is nullable)]`
/// - also when that set is empty. On grammars whose rules all derive token strings no empty set
/// arises and this is the textbook closure; with an unproductive `b` the textbook adds nothing,
/// the set formulation an item with an empty set (and whatever follows from it).
pub fn closure_sets(flat: &Flat, fi: &FirstInfo, core: &BTreeMap<(usize, usize), BTreeSet<usize>>) -> BTreeMap<(usize, usize), BTreeSet<usize>> {
    let mut m = core.clone();
    loop {
        let mut changed = false;
        let keys: Vec<(usize, usize)> = m.keys().cloned().collect();
        for (p, d) in keys {
            let syms = &flat.prods[p].1;
            if d >= syms.len() {
                continue;
            }
            if let Sym::R(b) = syms[d] {
                let mut ctx = first_of(&syms[d + 1..], usize::MAX, fi);
                if ctx.remove(&usize::MAX) {
                    ctx.extend(m[&(p, d)].iter().cloned());
                }
                for &bp in &flat.rule_prods[b] {
                    match m.get_mut(&(bp, 0)) {
                        Some(e) => {
                            let n = e.len();
                            e.extend(ctx.iter().cloned());
                            changed |= e.len() != n;
                        }
                        None => {
                            m.insert((bp, 0), ctx.clone());
                            changed = true;
                        }
                    }
                }
            }
        }
        if !changed {
            return m;
        }
    }
}

/// Builds the canonical automaton; `None` if it would exceed `max_states`.
pub fn build(ag: &AG, max_states: usize) -> Option<Lr1> {
    let flat = flatten(ag);
    let fi = first_info(ag);
    let mut start = State1::new();
    start.insert((flat.aug, 0, flat.eof));
    let s0 = closure1(&flat, &fi, &start);
    let mut index: BTreeMap<State1, usize> = BTreeMap::new();
    let mut states = vec![s0.clone()];
    index.insert(s0, 0);
    let mut edges: Vec<BTreeMap<Sym, usize>> = vec![BTreeMap::new()];
    let mut i = 0;
    while i < states.len() {
        let mut by_sym: BTreeMap<Sym, State1> = BTreeMap::new();
        for &(p, d, la) in &states[i] {
            let syms = &flat.prods[p].1;
            if d < syms.len() {
                by_sym.entry(syms[d]).or_default().insert((p, d + 1, la));
            }
        }
        for (sym, core) in by_sym {
            let closed = closure1(&flat, &fi, &core);
            let j = match index.get(&closed) {
                Some(j) => *j,
                None => {
                    let j = states.len();
                    if j >= max_states {
                        return None;
                    }
                    index.insert(closed.clone(), j);
                    states.push(closed);
                    edges.push(BTreeMap::new());
                    j
                }
            };
            edges[i].insert(sym, j);
        }
        i += 1;
    }
    let mut cands: Vec<BTreeMap<usize, BTreeSet<Act>>> = vec![];
    for (si, st) in states.iter().enumerate() {
        let mut m: BTreeMap<usize, BTreeSet<Act>> = BTreeMap::new();
        for (sym, j) in &edges[si] {
            if let Sym::T(t) = sym {
                m.entry(*t).or_default().insert(Act::Shift(*j));
            }
        }
        for &(p, d, la) in st {
            if d == flat.prods[p].1.len() {
                if p == flat.aug {
                    m.entry(la).or_default().insert(Act::Accept);
                } else {
                    m.entry(la).or_default().insert(Act::Reduce(p));
                }
            }
        }
        cands.push(m);
    }
    Some(Lr1 {
        flat,
        states,
        edges,
        cands,
    })
}

impl Lr1 {
    pub fn conflict_free(&self) -> bool {
        self.cands
            .iter()
            .all(|m| m.values().all(|s| s.len() <= 1))
    }

    /// Number of states and conflict freedom of the LALR(1) automaton obtained by merging
    /// states with equal cores.
    pub fn lalr(&self) -> (usize, bool) {
        let mut groups: BTreeMap<BTreeSet<(usize, usize)>, Vec<usize>> = BTreeMap::new();
        for (i, st) in self.states.iter().enumerate() {
            let core: BTreeSet<(usize, usize)> = st.iter().map(|&(p, d, _)| (p, d)).collect();
            groups.entry(core).or_default().push(i);
        }
        let mut ok = true;
        for members in groups.values() {
            // merged candidate actions; shifts to states of one group count as the same action
            let mut m: BTreeMap<usize, BTreeSet<(u8, usize)>> = BTreeMap::new();
            for &s in members {
                for (t, acts) in &self.cands[s] {
                    for a in acts {
                        let key = match a {
                            Act::Shift(_) => (0u8, 0usize),
                            Act::Reduce(p) => (1, *p),
                            Act::Accept => (2, 0),
                        };
                        m.entry(*t).or_default().insert(key);
                    }
                }
            }
            if m.values().any(|s| s.len() > 1) {
                ok = false;
            }
        }
        (groups.len(), ok)
    }

    pub fn action(&self, st: usize, tok: usize) -> Option<Act> {
        self.cands[st]
            .get(&tok)
            .and_then(|s| s.iter().next().cloned())
    }

    pub fn goto(&self, st: usize, rule: usize) -> Option<usize> {
        self.edges[st].get(&Sym::R(rule)).cloned()
    }
}

#[derive(Clone, Debug, PartialEq, Eq)]
pub enum Tree {
    /// (token, index of the lexeme in the input)
    Leaf(usize, usize),
    /// (rule, production index inside the rule, children)
    Node(usize, usize, Vec<Tree>),
}

impl Tree {
    pub fn depth(&self) -> usize {
        match self {
            Tree::Leaf(..) => 1,
            Tree::Node(_, _, c) => 1 + c.iter().map(|t| t.depth()).max().unwrap_or(0),
        }
    }
    pub fn leaves(&self, out: &mut Vec<(usize, usize)>) {
        match self {
            Tree::Leaf(t, i) => out.push((*t, *i)),
            Tree::Node(_, _, c) => c.iter().for_each(|x| x.leaves(out)),
        }
    }
}

#[derive(Debug, PartialEq, Eq)]
pub enum DriveResult {
    Accept(Tree),
    /// index of the offending lexeme (input.len() = end of input), reductions performed on the
    /// offending lookahead before the error was detected
    Error(usize, usize),
}

/// Plain LR driver over the canonical tables (only valid when conflict free).
pub fn drive(lr: &Lr1, input: &[usize]) -> DriveResult {
    let mut stack: Vec<usize> = vec![0];
    let mut trees: Vec<Tree> = vec![];
    let mut i = 0;
    let mut reds_on_la = 0;
    loop {
        let la = if i < input.len() { input[i] } else { lr.flat.eof };
        match lr.action(*stack.last().unwrap(), la) {
            Some(Act::Shift(s)) => {
                stack.push(s);
                trees.push(Tree::Leaf(la, i));
                i += 1;
                reds_on_la = 0;
            }
            Some(Act::Reduce(p)) => {
                let (rule, syms) = &lr.flat.prods[p];
                let n = syms.len();
                let kids = trees.split_off(trees.len() - n);
                stack.truncate(stack.len() - n);
                let pin = lr.flat.rule_prods[*rule].iter().position(|x| *x == p).unwrap();
                trees.push(Tree::Node(*rule, pin, kids));
                let g = lr.goto(*stack.last().unwrap(), *rule).expect("goto");
                stack.push(g);
                reds_on_la += 1;
            }
            Some(Act::Accept) => {
                return DriveResult::Accept(trees.pop().unwrap());
            }
            None => return DriveResult::Error(i, reds_on_la),
        }
    }
}

pub mod analyses;
pub mod earley;
pub mod lr1;

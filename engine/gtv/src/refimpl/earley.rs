//! Earley recogniser on the AG (with the Aycock-Horspool nullable fix). Works on the grammar
//! restricted to productions whose symbols are all productive, so that a non-empty item set
//! after k tokens means "those k tokens are a prefix of some sentence".

use super::analyses::{nullable, productive};
use crate::genr::grammar::{AG, Sym};
use std::collections::BTreeSet;

pub struct Earley<'a> {
    ag: &'a AG,
    nul: Vec<bool>,
    /// usable productions per rule (all symbols productive): (rule, index in rule)
    prods: Vec<Vec<usize>>,
}

type Item = (usize, usize, usize, usize); // rule, prod-in-rule, dot, origin

impl<'a> Earley<'a> {
    pub fn new(ag: &'a AG) -> Self {
        let nul = nullable(ag);
        let prod = productive(ag);
        let prods = ag
            .rules
            .iter()
            .map(|r| {
                r.prods
                    .iter()
                    .enumerate()
                    .filter(|(_, p)| {
                        p.syms.iter().all(|s| match s {
                            Sym::T(_) => true,
                            Sym::R(j) => prod[*j],
                        })
                    })
                    .map(|(i, _)| i)
                    .collect()
            })
            .collect();
        Earley { ag, nul, prods }
    }

    fn closure(&self, set: &mut BTreeSet<Item>, sets: &[BTreeSet<Item>], pos: usize) {
        let mut todo: Vec<Item> = set.iter().cloned().collect();
        while let Some((r, p, d, o)) = todo.pop() {
            let syms = &self.ag.rules[r].prods[p].syms;
            if d < syms.len() {
                if let Sym::R(b) = syms[d] {
                    // predict
                    for &bp in &self.prods[b] {
                        let it = (b, bp, 0, pos);
                        if set.insert(it) {
                            todo.push(it);
                        }
                    }
                    // nullable fix
                    if self.nul[b] {
                        let it = (r, p, d + 1, o);
                        if set.insert(it) {
                            todo.push(it);
                        }
                    }
                }
            } else {
                // complete
                let parents: Vec<Item> = if o == pos {
                    set.iter().cloned().collect()
                } else {
                    sets[o].iter().cloned().collect()
                };
                for (pr, pp, pd, po) in parents {
                    let ps = &self.ag.rules[pr].prods[pp].syms;
                    if pd < ps.len() && ps[pd] == Sym::R(r) {
                        let it = (pr, pp, pd + 1, po);
                        if set.insert(it) {
                            todo.push(it);
                        }
                    }
                }
            }
        }
    }

    /// Runs the recogniser from `start_rule`. Returns (accepted, first_nonviable) where
    /// first_nonviable = index of the first token after which no sentence prefix remains, or
    /// `input.len()` when every prefix is viable but the whole input is not a sentence.
    /// For an accepted input first_nonviable is `None`.
    pub fn run_from(&self, start_rule: usize, input: &[usize]) -> (bool, Option<usize>) {
        let mut sets: Vec<BTreeSet<Item>> = Vec::with_capacity(input.len() + 1);
        let mut s0 = BTreeSet::new();
        for &p in &self.prods[start_rule] {
            s0.insert((start_rule, p, 0, 0));
        }
        self.closure(&mut s0, &sets, 0);
        if s0.is_empty() {
            // start rule unproductive: the language is empty, the very first lexeme (or end of
            // input) cannot continue a sentence
            return (false, Some(0));
        }
        sets.push(s0);
        for (k, &t) in input.iter().enumerate() {
            let mut next = BTreeSet::new();
            for &(r, p, d, o) in &sets[k] {
                let syms = &self.ag.rules[r].prods[p].syms;
                if d < syms.len() && syms[d] == Sym::T(t) {
                    next.insert((r, p, d + 1, o));
                }
            }
            if next.is_empty() {
                return (false, Some(k));
            }
            self.closure(&mut next, &sets, k + 1);
            sets.push(next);
        }
        let n = input.len();
        let acc = sets[n].iter().any(|&(r, p, d, o)| {
            r == start_rule && o == 0 && d == self.ag.rules[r].prods[p].syms.len()
        });
        if acc { (true, None) } else { (false, Some(n)) }
    }

    pub fn run(&self, input: &[usize]) -> (bool, Option<usize>) {
        self.run_from(self.ag.start, input)
    }

    pub fn accepts(&self, input: &[usize]) -> bool {
        self.run(input).0
    }

    pub fn derives(&self, rule: usize, input: &[usize]) -> bool {
        self.run_from(rule, input).0
    }

    /// Is `prefix` a prefix of some sentence?
    pub fn viable_prefix(&self, prefix: &[usize]) -> bool {
        match self.run(prefix) {
            (true, _) => true,
            (false, Some(k)) => k == prefix.len(),
            (false, None) => false,
        }
    }
}

/// Brute-force sentence enumeration up to a length bound (oracle self-test only): all terminal
/// strings of length <= max_len derivable from `rule`, by leftmost expansion with pruning.
pub fn brute_sentences(ag: &AG, rule: usize, max_len: usize, budget: &mut usize) -> BTreeSet<Vec<usize>> {
    let nul = nullable(ag);
    let mut out = BTreeSet::new();
    let mut seen: BTreeSet<Vec<Sym>> = BTreeSet::new();
    let mut todo: Vec<Vec<Sym>> = vec![vec![Sym::R(rule)]];
    while let Some(form) = todo.pop() {
        if *budget == 0 {
            break;
        }
        *budget -= 1;
        // minimal length: tokens + non-nullable rules count at least 1
        let min_len = form
            .iter()
            .filter(|s| match s {
                Sym::T(_) => true,
                Sym::R(j) => !nul[*j],
            })
            .count();
        if min_len > max_len || form.len() > max_len + 6 {
            continue;
        }
        match form.iter().position(|s| matches!(s, Sym::R(_))) {
            None => {
                out.insert(
                    form.iter()
                        .map(|s| match s {
                            Sym::T(t) => *t,
                            _ => unreachable!(),
                        })
                        .collect(),
                );
            }
            Some(i) => {
                let Sym::R(r) = form[i] else { unreachable!() };
                for p in &ag.rules[r].prods {
                    let mut nf = form[..i].to_vec();
                    nf.extend(p.syms.iter().cloned());
                    nf.extend(form[i + 1..].iter().cloned());
                    if seen.insert(nf.clone()) {
                        todo.push(nf);
                    }
                }
            }
        }
    }
    out
}

use gtv::exec::runner::{RunCfg, run_check, run_replay};
use gtv::exec::worker::worker_main;
use gtv::exec::Tier;
use std::path::PathBuf;

fn root() -> PathBuf {
    if let Ok(r) = std::env::var("GTV_ROOT") {
        return PathBuf::from(r);
    }
    // <root>/engine/target/release/gtv
    let exe = std::env::current_exe().unwrap();
    exe.ancestors().nth(4).map(|p| p.to_path_buf()).unwrap_or_else(|| PathBuf::from("/verif"))
}

fn usage() -> ! {
    eprintln!("usage: gtv check <Cxx> [--tier quick|thorough] [--seed N]\n       gtv replay <file>\n       gtv worker <Cxx>\n       gtv list");
    std::process::exit(2)
}

fn main() {
    let args: Vec<String> = std::env::args().collect();
    if args.len() < 2 {
        usage();
    }
    match args[1].as_str() {
        "list" => {
            for p in gtv::props::all() {
                println!("{}", p.id());
            }
        }
        "worker" => {
            let Some(p) = args.get(2).and_then(|id| gtv::props::by_id(id)) else { usage() };
            worker_main(p.as_ref());
        }
        "check" => {
            let Some(p) = args.get(2).and_then(|id| gtv::props::by_id(id)) else {
                eprintln!("unknown property");
                std::process::exit(2)
            };
            let mut tier = match std::env::var("VERIF_TIER").as_deref() {
                Ok("thorough") => Tier::Thorough,
                _ => Tier::Quick,
            };
            let mut seed: u64 = std::env::var("VERIF_SEED").ok().and_then(|s| s.parse().ok()).unwrap_or(20260925);
            let mut i = 3;
            while i < args.len() {
                match args[i].as_str() {
                    "--tier" => {
                        tier = match args.get(i + 1).map(|s| s.as_str()) {
                            Some("thorough") => Tier::Thorough,
                            Some("quick") => Tier::Quick,
                            _ => usage(),
                        };
                        i += 2;
                    }
                    "--seed" => {
                        seed = args.get(i + 1).and_then(|s| s.parse().ok()).unwrap_or_else(|| usage());
                        i += 2;
                    }
                    _ => usage(),
                }
            }
            let cfg = RunCfg { root: root(), tier, seed };
            if p.id() == "C13" {
                std::process::exit(gtv::props::c13::custom_run(&cfg));
            }
            std::process::exit(run_check(p.as_ref(), &cfg));
        }
        "trace" => {
            let f = args.get(2).unwrap();
            let k: usize = args.get(3).and_then(|x| x.parse().ok()).unwrap_or(0);
            let v: serde_json::Value = serde_json::from_str(&std::fs::read_to_string(f).unwrap()).unwrap();
            let ag: gtv::genr::grammar::AG = serde_json::from_value(v["case"]["ag"].clone()).unwrap();
            let inputs: Vec<Vec<usize>> = serde_json::from_value(v["case"]["inputs"].clone()).unwrap();
            println!("{}", gtv::genr::grammar::render_simple(&ag));
            let b = gtv::harness::build(&ag).ok().unwrap();
            println!("{}", gtv::harness::trace_lr(&b, &inputs[k], 60));
        }
        "parse" => {
            // print the recovering parse of input k of a stored (recovery) case
            let f = args.get(2).unwrap();
            let k: usize = args.get(3).and_then(|x| x.parse().ok()).unwrap_or(0);
            let v: serde_json::Value = serde_json::from_str(&std::fs::read_to_string(f).unwrap()).unwrap();
            let ag: gtv::genr::grammar::AG = serde_json::from_value(v["case"]["ag"].clone()).unwrap();
            let inputs: Vec<Vec<usize>> = serde_json::from_value(v["case"]["inputs"].clone()).unwrap();
            let costs: Vec<u8> = serde_json::from_value(v["case"]["costs"].clone()).unwrap_or(vec![1; ag.tokens.len()]);
            println!("{}", gtv::genr::grammar::render_simple(&ag));
            let b = gtv::harness::build(&ag).ok().unwrap();
            let layout = gtv::harness::Layout::unit(inputs[k].len());
            println!("input {:?} (lexeme i starts at 2i+1)", inputs[k].iter().map(|t| ag.tokens[*t].as_str()).collect::<Vec<_>>());
            let (t, e, hit) = gtv::harness::parse_tree_rec(&b, &inputs[k], &layout, Some(&costs), gtv::harness::RECOVERY_CAP).unwrap();
            println!("cap_hit {hit} value {}", t.is_some());
            for x in &e {
                println!("error at offset {} (tok id {}) state {} repairs:", x.start, x.tok_id, x.stidx);
                for r in &x.repairs {
                    println!("    {:?}", r);
                }
            }
        }
        "mkag" => {
            // abstract grammar JSON from the simple text format
            let ag = gtv::genr::grammar::parse_simple(args.get(2).unwrap());
            println!("{}", serde_json::to_string(&ag).unwrap());
        }
        "decodebench" => {
            // time decode() on pseudo-random streams; report slow ones
            let p = gtv::props::by_id(args.get(2).unwrap()).unwrap();
            let n: usize = args.get(3).and_then(|x| x.parse().ok()).unwrap_or(1000);
            let mut x: u64 = 12345;
            for i in 0..n {
                let len = p.stream_len(Tier::Quick);
                let mut stream = vec![];
                for _ in 0..len {
                    x = x.wrapping_add(0x9E3779B97F4A7C15);
                    let mut z = x;
                    z = (z ^ (z >> 30)).wrapping_mul(0xBF58476D1CE4E5B9);
                    z = (z ^ (z >> 27)).wrapping_mul(0x94D049BB133111EB);
                    z ^= z >> 31;
                    stream.push(z as u32);
                }
                let t = std::time::Instant::now();
                let v = p.decode(&stream, Tier::Quick);
                let d = t.elapsed();
                if d.as_millis() > 50 {
                    println!("case {i}: decode took {:?}; json len {}", d, v.to_string().len());
                    std::fs::write(format!("/tmp/slow_{i}.json"), v.to_string()).unwrap();
                }
            }
        }
        "ctstep" => gtv::ctstep::ctstep_main(),
        "digest" => gtv::props::c15::digest_main(),
        "dbg" => {
            // in-process evaluation of a stored case (for debugging hangs with gdb)
            let Some(f) = args.get(2) else { usage() };
            let txt = std::fs::read_to_string(f).expect("read file");
            let v: serde_json::Value = serde_json::from_str(&txt).expect("json");
            let id = v.get("property").and_then(|x| x.as_str()).unwrap_or("");
            let p = gtv::props::by_id(id).expect("property");
            gtv::exec::install_panic_hook();
            let o = gtv::exec::worker::evaluate_guarded(p.as_ref(), v.get("case").unwrap());
            println!("{}", serde_json::to_string_pretty(&o).unwrap());
        }
        "replay" => {
            let Some(f) = args.get(2) else { usage() };
            let txt = std::fs::read_to_string(f).expect("read replay file");
            let v: serde_json::Value = serde_json::from_str(&txt).expect("json");
            let id = v.get("property").and_then(|x| x.as_str()).unwrap_or("");
            let Some(p) = gtv::props::by_id(id) else {
                eprintln!("unknown property in replay file");
                std::process::exit(2)
            };
            std::process::exit(run_replay(p.as_ref(), std::path::Path::new(f)));
        }
        _ => usage(),
    }
}

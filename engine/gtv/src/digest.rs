//! Canonical text of every public query of a grammar, state graph and state table (indices
//! widened to usize), used by C14, C15 and C20.

use cfgrammar::yacc::YaccGrammar;
use cfgrammar::{Symbol, TIdx};
use lrtable::{Action, StIdx, StateGraph, StateTable};
use num_traits::{AsPrimitive, PrimInt, Unsigned};
use std::fmt::{Debug, Write};
use std::hash::Hash;

pub fn sym<T: 'static + PrimInt + Unsigned>(s: &Symbol<T>) -> String
where
    usize: AsPrimitive<T>,
{
    match s {
        Symbol::Rule(r) => format!("R{}", usize::from(*r)),
        Symbol::Token(t) => format!("T{}", usize::from(*t)),
    }
}

pub fn digest_grammar<T: 'static + PrimInt + Unsigned + Hash + Debug>(g: &YaccGrammar<T>) -> String
where
    usize: AsPrimitive<T>,
{
    let mut o = String::new();
    let _ = writeln!(
        o,
        "rules_len={} prods_len={} tokens_len={} eof={} start_prod={} start_rule={} implicit_rule={:?}",
        usize::from(g.rules_len()),
        usize::from(g.prods_len()),
        usize::from(g.tokens_len()),
        usize::from(g.eof_token_idx()),
        usize::from(g.start_prod()),
        usize::from(g.start_rule_idx()),
        g.implicit_rule().map(usize::from)
    );
    let _ = writeln!(o, "iter_rules={} iter_pidxs={} iter_tidxs={}", g.iter_rules().count(), g.iter_pidxs().count(), g.iter_tidxs().count());
    for r in g.iter_rules() {
        let sp = g.rule_name_span(r);
        let _ = writeln!(
            o,
            "rule {} name={:?} span={}..{} prods={:?} actiontype={:?} idx={:?}",
            usize::from(r),
            g.rule_name_str(r),
            sp.start(),
            sp.end(),
            g.rule_to_prods(r).iter().map(|p| usize::from(*p)).collect::<Vec<_>>(),
            g.actiontype(r),
            g.rule_idx(g.rule_name_str(r)).map(usize::from)
        );
    }
    for p in g.iter_pidxs() {
        let sp = g.prod_span(p);
        let _ = writeln!(
            o,
            "prod {} rule={} syms={:?} len={} prec={:?} span={}..{} action={:?} action_span={:?} pp={:?}",
            usize::from(p),
            usize::from(g.prod_to_rule(p)),
            g.prod(p).iter().map(sym).collect::<Vec<_>>(),
            usize::from(g.prod_len(p)),
            g.prod_precedence(p).map(|x| (x.level, format!("{:?}", x.kind))),
            sp.start(),
            sp.end(),
            g.action(p),
            g.action_span(p).map(|s| (s.start(), s.end())),
            g.pp_prod(p)
        );
    }
    for t in g.iter_tidxs() {
        let _ = writeln!(
            o,
            "token {} name={:?} prec={:?} epp={:?} span={:?} avoid_insert={} idx={:?}",
            usize::from(t),
            g.token_name(t),
            g.token_precedence(t).map(|x| (x.level, format!("{:?}", x.kind))),
            g.token_epp(t),
            g.token_span(t).map(|s| (s.start(), s.end())),
            g.avoid_insert(t),
            g.token_name(t).and_then(|n| g.token_idx(n)).map(usize::from)
        );
    }
    let mut tm: Vec<(String, usize)> = g.tokens_map().iter().map(|(k, v)| (k.to_string(), usize::from(*v))).collect();
    tm.sort();
    let _ = writeln!(o, "tokens_map={:?}", tm);
    let _ = writeln!(
        o,
        "expect={:?} expectrr={:?} parse_param={:?} parse_generics={:?} programs={:?}",
        g.expect(),
        g.expectrr(),
        g.parse_param(),
        g.parse_generics(),
        g.programs()
    );
    // has_path for all pairs
    for a in g.iter_rules() {
        let row: String = g.iter_rules().map(|b| if g.has_path(a, b) { '1' } else { '0' }).collect();
        let _ = writeln!(o, "has_path {} {}", usize::from(a), row);
    }
    // the analyses every table construction starts from
    let firsts = g.firsts();
    let follows = g.follows();
    for r in g.iter_rules() {
        let fi: String = g.iter_tidxs().map(|t| if firsts.is_set(r, t) { '1' } else { '0' }).collect();
        let fo: String = g.iter_tidxs().map(|t| if follows.is_set(r, t) { '1' } else { '0' }).collect();
        let _ = writeln!(o, "firsts {} {} eps={} follows {}", usize::from(r), fi, firsts.is_epsilon_set(r), fo);
    }
    o
}

/// `conflicts_in_order`: list conflicts as stored (C14: a Vec must round-trip) or sorted (C15/C20:
/// the order is unspecified).
pub fn digest_table<T: 'static + PrimInt + Unsigned + Hash + Debug>(
    g: &YaccGrammar<T>,
    st: &StateTable<T>,
    nstates: usize,
    conflicts_in_order: bool,
) -> String
where
    usize: AsPrimitive<T>,
{
    digest_table_perm(g, st, nstates, conflicts_in_order, None)
}

/// Canonical state numbering: breadth-first from the start state, following the edges of each
/// state in symbol order (rules by index, then tokens by index). Returns old -> new.
pub fn canonical_state_perm<T: 'static + PrimInt + Unsigned + Hash + Debug>(sg: &StateGraph<T>) -> Vec<usize>
where
    usize: AsPrimitive<T>,
{
    let n = usize::from(sg.all_states_len());
    let mut perm = vec![usize::MAX; n];
    let mut next = 0;
    let mut queue = std::collections::VecDeque::new();
    perm[usize::from(sg.start_state())] = 0;
    next += 1;
    queue.push_back(sg.start_state());
    while let Some(s) = queue.pop_front() {
        let mut es: Vec<(u8, usize, StIdx<T>)> = sg
            .edges(s)
            .iter()
            .map(|(k, v)| match k {
                Symbol::Rule(r) => (0u8, usize::from(*r), *v),
                Symbol::Token(t) => (1u8, usize::from(*t), *v),
            })
            .collect();
        es.sort_by_key(|x| (x.0, x.1));
        for (_, _, t) in es {
            if perm[usize::from(t)] == usize::MAX {
                perm[usize::from(t)] = next;
                next += 1;
                queue.push_back(t);
            }
        }
    }
    for p in perm.iter_mut() {
        if *p == usize::MAX {
            *p = next;
            next += 1;
        }
    }
    perm
}

pub fn digest_table_perm<T: 'static + PrimInt + Unsigned + Hash + Debug>(
    g: &YaccGrammar<T>,
    st: &StateTable<T>,
    nstates: usize,
    conflicts_in_order: bool,
    perm: Option<&[usize]>,
) -> String
where
    usize: AsPrimitive<T>,
{
    let mut o = String::new();
    let m = |x: usize| perm.map(|p| p[x]).unwrap_or(x);
    let inv: Vec<usize> = match perm {
        Some(p) => {
            let mut v = vec![0; nstates];
            for (old, new) in p.iter().enumerate() {
                v[*new] = old;
            }
            v
        }
        None => (0..nstates).collect(),
    };
    let _ = writeln!(o, "start_state={}", m(usize::from(st.start_state())));
    for snew in 0..nstates {
        let s = inv[snew];
        let sidx: StIdx<T> = StIdx(s.as_());
        let mut line = format!("state {snew}:");
        for t in g.iter_tidxs() {
            let a = match st.action(sidx, t) {
                Action::Shift(x) => format!("s{}", m(usize::from(x))),
                Action::Reduce(p) => format!("r{}", usize::from(p)),
                Action::Accept => "acc".to_string(),
                Action::Error => "-".to_string(),
            };
            line.push(' ');
            line.push_str(&a);
        }
        line.push_str(" |");
        for r in g.iter_rules() {
            match st.goto(sidx, r) {
                Some(x) => {
                    let _ = write!(line, " {}", m(usize::from(x)));
                }
                None => line.push_str(" -"),
            }
        }
        let sa: Vec<usize> = st.state_actions(sidx).map(usize::from).collect();
        let ss: Vec<usize> = st.state_shifts(sidx).map(usize::from).collect();
        // core_reduces: the representative is documented as arbitrary: abstract to (rule, len)
        let mut cr: Vec<(usize, usize)> = st
            .core_reduces(sidx)
            .map(|p| (usize::from(g.prod_to_rule(p)), g.prod(p).len()))
            .collect();
        cr.sort();
        let _ = write!(line, " | actions={sa:?} shifts={ss:?} core_reduces={cr:?} reduce_only={}", st.reduce_only_state(sidx));
        let _ = writeln!(o, "{line}");
    }
    match st.conflicts() {
        None => {
            let _ = writeln!(o, "conflicts=None");
        }
        Some(c) => {
            let mut sr: Vec<(usize, usize, usize)> = c.sr_conflicts().map(|(t, p, s)| (usize::from(*t), usize::from(*p), m(usize::from(*s)))).collect();
            let mut rr: Vec<(usize, usize, usize, usize)> = c
                .rr_conflicts()
                .map(|(t, p1, p2, s)| (usize::from(*t), usize::from(*p1), usize::from(*p2), m(usize::from(*s))))
                .collect();
            if !conflicts_in_order {
                sr.sort();
                // which earlier candidate a losing reduction is paired with depends on the order
                // in which the items of a state are visited: keep (token, loser, state) only
                for x in rr.iter_mut() {
                    x.1 = 0;
                }
                rr.sort();
            }
            let _ = writeln!(o, "sr_len={} rr_len={} sr={sr:?} rr={rr:?}", c.sr_len(), c.rr_len());
        }
    }
    o
}

pub fn digest_graph<T: 'static + PrimInt + Unsigned + Hash + Debug>(g: &YaccGrammar<T>, sg: &StateGraph<T>) -> String
where
    usize: AsPrimitive<T>,
{
    digest_graph_perm(g, sg, None)
}

pub fn digest_graph_perm<T: 'static + PrimInt + Unsigned + Hash + Debug>(g: &YaccGrammar<T>, sg: &StateGraph<T>, perm: Option<&[usize]>) -> String
where
    usize: AsPrimitive<T>,
{
    let mut o = String::new();
    let m = |x: usize| perm.map(|p| p[x]).unwrap_or(x);
    let _ = writeln!(o, "states={} edges={} start={}", usize::from(sg.all_states_len()), sg.all_edges_len(), m(usize::from(sg.start_state())));
    let ntok = usize::from(g.tokens_len());
    let mut order: Vec<StIdx<T>> = sg.iter_stidxs().collect();
    order.sort_by_key(|s| m(usize::from(*s)));
    for s in order {
        for (label, is) in [("core", sg.core_state(s)), ("closed", sg.closed_state(s))] {
            let mut items: Vec<String> = is
                .items
                .iter()
                .map(|((p, d), ctx)| {
                    let la: Vec<usize> = (0..ntok).filter(|t| ctx.get(*t).unwrap_or(false)).collect();
                    format!("({},{},{:?})", usize::from(*p), usize::from(*d), la)
                })
                .collect();
            items.sort();
            let _ = writeln!(o, "{} {} {}", m(usize::from(s)), label, items.join(" "));
        }
        let mut es: Vec<String> = sg.edges(s).iter().map(|(k, v)| format!("{}->{}", sym(k), m(usize::from(*v)))).collect();
        es.sort();
        let _ = writeln!(o, "{} edges {}", m(usize::from(s)), es.join(" "));
        for (k, v) in sg.edges(s).iter() {
            if sg.edge(s, *k) != Some(*v) {
                let _ = writeln!(o, "edge() disagrees with edges() at state {}", usize::from(s));
            }
        }
    }
    let _ = TIdx(0u8);
    o
}

pub mod choices;

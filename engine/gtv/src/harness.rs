//! Glue between the abstract grammar and the implementation under test: build grammar + tables,
//! name maps, a harness lexer that yields exactly the chosen token ids, tree conversion.

use crate::genr::choices::Choices;
use crate::genr::grammar::{AG, Sym, render_simple};
use crate::refimpl::lr1::Tree;
use cfgrammar::yacc::{YaccGrammar, YaccKind, YaccOriginalActionKind};
use cfgrammar::{NewlineCache, PIdx, RIdx, Span, Symbol, TIdx};
use lrlex::{DefaultLexeme, DefaultLexerTypes, LRLexError};
use lrpar::{Lexeme, Lexer, Node, NonStreamingLexer};
use lrtable::{Minimiser, StateGraph, StateTable, from_yacc};
use num_traits::{AsPrimitive, PrimInt, Unsigned};
use std::fmt::Debug;
use std::hash::Hash;
use std::str::FromStr;

pub struct Built<T: 'static + PrimInt + Unsigned + Hash + Debug = u32>
where
    usize: AsPrimitive<T>,
{
    pub src: String,
    pub grm: YaccGrammar<T>,
    pub sg: StateGraph<T>,
    pub st: StateTable<T>,
    /// AG token index -> implementation token index
    pub tok: Vec<TIdx<T>>,
    /// AG rule index -> implementation rule index
    pub rule: Vec<RIdx<T>>,
}

pub enum BuildErr {
    Grammar(String),
    /// accept/reduce conflict: construction does not accept the grammar
    Table(String),
}

pub fn generic_kind() -> YaccKind {
    YaccKind::Original(YaccOriginalActionKind::GenericParseTree)
}

pub fn build_with<T: 'static + PrimInt + Unsigned + Hash + Debug>(
    ag: &AG,
    src: String,
    kind: YaccKind,
) -> Result<Built<T>, BuildErr>
where
    usize: AsPrimitive<T>,
{
    let grm = YaccGrammar::<T>::new_with_storaget(kind, &src)
        .map_err(|e| BuildErr::Grammar(format!("{:?}", e)))?;
    let (sg, st) = from_yacc(&grm, Minimiser::Pager).map_err(|e| BuildErr::Table(format!("{e}")))?;
    let mut tok = vec![];
    for t in &ag.tokens {
        tok.push(
            grm.token_idx(t)
                .ok_or_else(|| BuildErr::Grammar(format!("token {t} missing")))?,
        );
    }
    let mut rule = vec![];
    for r in &ag.rules {
        rule.push(
            grm.rule_idx(&r.name)
                .ok_or_else(|| BuildErr::Grammar(format!("rule {} missing", r.name)))?,
        );
    }
    Ok(Built {
        src,
        grm,
        sg,
        st,
        tok,
        rule,
    })
}

pub fn build(ag: &AG) -> Result<Built<u32>, BuildErr> {
    build_with::<u32>(ag, render_simple(ag), generic_kind())
}

impl<T: 'static + PrimInt + Unsigned + Hash + Debug> Built<T>
where
    usize: AsPrimitive<T>,
{
    pub fn ag_token(&self, tidx: TIdx<T>) -> Option<usize> {
        self.tok.iter().position(|x| *x == tidx)
    }
    pub fn ag_rule(&self, ridx: RIdx<T>) -> Option<usize> {
        self.rule.iter().position(|x| *x == ridx)
    }
    /// AG (rule, production-in-rule) of an implementation production, `None` for added ones.
    pub fn ag_prod(&self, pidx: PIdx<T>) -> Option<(usize, usize)> {
        let ridx = self.grm.prod_to_rule(pidx);
        let r = self.ag_rule(ridx)?;
        let k = self
            .grm
            .rule_to_prods(ridx)
            .iter()
            .position(|x| *x == pidx)?;
        Some((r, k))
    }
    pub fn impl_prod(&self, rule: usize, k: usize) -> PIdx<T> {
        self.grm.rule_to_prods(self.rule[rule])[k]
    }
    pub fn ag_sym(&self, s: Symbol<T>) -> Option<Sym> {
        match s {
            Symbol::Token(t) => self.ag_token(t).map(Sym::T),
            Symbol::Rule(r) => self.ag_rule(r).map(Sym::R),
        }
    }
    pub fn tok_usize(&self, t: usize) -> usize {
        usize::from(self.tok[t])
    }
}

// ---------------------------------------------------------------------------------------------
// harness lexer

pub struct VLexer<T: 'static + PrimInt + Unsigned + Hash + Debug>
where
    usize: AsPrimitive<T>,
{
    pub lexemes: Vec<DefaultLexeme<T>>,
    pub text: String,
    nlc: NewlineCache,
    /// lexeme `.0` is unlexable text: the lexer yields an error item with its span there and
    /// then stops (`.1` false) or goes on with the remaining lexemes (`.1` true) - both are
    /// documented behaviours of `Lexer::iter`
    pub lex_error: Option<(usize, bool)>,
}

/// Layout of an input: positive lengths, random gaps => every lexeme has a unique start.
#[derive(Clone, Debug, serde::Serialize, serde::Deserialize, PartialEq)]
pub struct Layout {
    /// (gap before, length) per lexeme
    pub cells: Vec<(usize, usize)>,
    pub tail: usize,
}

impl Layout {
    pub fn generate(ch: &mut Choices, n: usize) -> Layout {
        // 1/13 of the lexemes are real lexemes of length zero (documented: DEDENT-like tokens of
        // hand-written lexers, told apart from inserted ones by `faulty()`); the lexeme after
        // such a one starts at least one byte later, so that start offsets stay unique
        let mut cells: Vec<(usize, usize)> = vec![];
        for _ in 0..n {
            let mut gap = ch.weighted(&[3, 2, 1, 1]);
            let len = ch.weighted(&[1, 6, 4, 2]);
            if gap == 0 && cells.last().map(|c| c.1 == 0).unwrap_or(false) {
                gap = 1;
            }
            cells.push((gap, len));
        }
        Layout {
            cells,
            tail: ch.weighted(&[2, 1, 1]),
        }
    }
    pub fn unit(n: usize) -> Layout {
        Layout {
            cells: vec![(1, 1); n],
            tail: 0,
        }
    }
    pub fn spans(&self) -> Vec<(usize, usize)> {
        let mut pos = 0;
        let mut v = vec![];
        for (g, l) in &self.cells {
            pos += g;
            v.push((pos, *l));
            pos += l;
        }
        v
    }
    pub fn total(&self) -> usize {
        self.cells.iter().map(|(g, l)| g + l).sum::<usize>() + self.tail
    }
}

impl<T: 'static + PrimInt + Unsigned + Hash + Debug> VLexer<T>
where
    usize: AsPrimitive<T>,
{
    /// `toks`: implementation token ids.
    pub fn new(toks: &[usize], layout: &Layout) -> Self {
        let spans = layout.spans();
        let lexemes = toks
            .iter()
            .zip(spans.iter())
            .map(|(t, (s, l))| DefaultLexeme::new(T::from(*t).unwrap(), *s, *l))
            .collect();
        let text: String = (0..layout.total())
            .map(|i| if i % 7 == 6 { '\n' } else { 'x' })
            .collect();
        let nlc = NewlineCache::from_str(&text).unwrap();
        VLexer { lexemes, text, nlc, lex_error: None }
    }
}

impl<T: 'static + PrimInt + Unsigned + Hash + Debug> Lexer<DefaultLexerTypes<T>> for VLexer<T>
where
    usize: AsPrimitive<T>,
{
    fn iter<'a>(
        &'a self,
    ) -> Box<dyn Iterator<Item = Result<DefaultLexeme<T>, LRLexError>> + 'a> {
        match self.lex_error {
            None => Box::new(self.lexemes.iter().map(|l| Ok(*l))),
            Some((k, goes_on)) => Box::new(self.lexemes.iter().enumerate().filter(move |(i, _)| *i <= k || goes_on).map(move |(i, l)| if i == k { Err(LRLexError::new(l.span())) } else { Ok(*l) })),
        }
    }
}

impl<'input, T: 'static + PrimInt + Unsigned + Hash + Debug>
    NonStreamingLexer<'input, DefaultLexerTypes<T>> for VLexer<T>
where
    usize: AsPrimitive<T>,
{
    fn span_str(&self, _span: Span) -> &'input str {
        ""
    }
    fn span_lines_str(&self, _span: Span) -> &'input str {
        ""
    }
    fn line_col(&self, span: Span) -> ((usize, usize), (usize, usize)) {
        (
            self.nlc
                .byte_to_line_num_and_col_num(&self.text, span.start())
                .unwrap_or((0, 0)),
            self.nlc
                .byte_to_line_num_and_col_num(&self.text, span.end())
                .unwrap_or((0, 0)),
        )
    }
}

// ---------------------------------------------------------------------------------------------
// trees

/// A tree as returned by the implementation, in AG terms. Lexemes are identified by their start
/// offset (unique by construction of the layout) so that the lexeme index can be recovered.
#[derive(Clone, Debug, PartialEq, Eq)]
pub enum ITree {
    Leaf {
        tok: usize,
        start: usize,
        len: usize,
        faulty: bool,
    },
    Node {
        rule: Option<usize>,
        kids: Vec<ITree>,
    },
}

pub fn convert_node<T: 'static + PrimInt + Unsigned + Hash + Debug>(
    b: &Built<T>,
    n: &Node<DefaultLexeme<T>, T>,
) -> ITree
where
    usize: AsPrimitive<T>,
{
    match n {
        Node::Term { lexeme } => ITree::Leaf {
            tok: b
                .ag_token(TIdx(lexeme.tok_id()))
                .unwrap_or(usize::MAX),
            start: lexeme.span().start(),
            len: lexeme.span().len(),
            faulty: lexeme.faulty(),
        },
        Node::Nonterm { ridx, nodes } => ITree::Node {
            rule: b.ag_rule(*ridx),
            kids: nodes.iter().map(|k| convert_node(b, k)).collect(),
        },
    }
}

impl ITree {
    pub fn leaves<'a>(&'a self, out: &mut Vec<&'a ITree>) {
        match self {
            ITree::Leaf { .. } => out.push(self),
            ITree::Node { kids, .. } => kids.iter().for_each(|k| k.leaves(out)),
        }
    }
    pub fn depth(&self) -> usize {
        match self {
            ITree::Leaf { .. } => 1,
            ITree::Node { kids, .. } => 1 + kids.iter().map(|k| k.depth()).max().unwrap_or(0),
        }
    }
    /// Check that every node's children spell one production of its rule in the AG; returns
    /// the production-annotated reference tree (leaf indices by position in `starts`).
    pub fn to_ref(&self, ag: &AG, starts: &[usize]) -> Result<Tree, String> {
        match self {
            ITree::Leaf { tok, start, .. } => {
                let i = starts
                    .iter()
                    .position(|s| s == start)
                    .ok_or_else(|| format!("leaf at offset {start} is not an input lexeme"))?;
                Ok(Tree::Leaf(*tok, i))
            }
            ITree::Node { rule, kids } => {
                let r = rule.ok_or_else(|| "node of a rule unknown to the source".to_string())?;
                let spelled: Vec<Sym> = kids
                    .iter()
                    .map(|k| match k {
                        ITree::Leaf { tok, .. } => Sym::T(*tok),
                        ITree::Node { rule, .. } => Sym::R(rule.unwrap_or(usize::MAX)),
                    })
                    .collect();
                let k = ag.rules[r]
                    .prods
                    .iter()
                    .position(|p| p.syms == spelled)
                    .ok_or_else(|| {
                        format!(
                            "children {:?} of a node of rule {} spell none of its productions",
                            spelled, ag.rules[r].name
                        )
                    })?;
                let mut ks = vec![];
                for c in kids {
                    ks.push(c.to_ref(ag, starts)?);
                }
                Ok(Tree::Node(r, k, ks))
            }
        }
    }
}

/// Compare a reference tree with an implementation tree modulo the choice among *identical*
/// productions (duplicate productions spell the same children).
pub fn same_shape(a: &Tree, b: &Tree, ag: &AG) -> bool {
    match (a, b) {
        (Tree::Leaf(t1, i1), Tree::Leaf(t2, i2)) => t1 == t2 && i1 == i2,
        (Tree::Node(r1, p1, k1), Tree::Node(r2, p2, k2)) => {
            r1 == r2
                && ag.rules[*r1].prods[*p1].syms == ag.rules[*r2].prods[*p2].syms
                && k1.len() == k2.len()
                && k1.iter().zip(k2.iter()).all(|(x, y)| same_shape(x, y, ag))
        }
        _ => false,
    }
}

// ---------------------------------------------------------------------------------------------
// parsing helpers

use lrpar::{LexParseError, ParseRepair, RTParserBuilder, RecoveryKind};

#[derive(Clone, Debug, PartialEq, Eq, PartialOrd, Ord, serde::Serialize)]
pub enum Rep {
    /// AG token index (usize::MAX-1 for end of input, usize::MAX for unknown)
    Insert(usize),
    /// start offset of the deleted lexeme
    Delete(usize),
    /// start offset of the shifted lexeme
    Shift(usize),
}

#[derive(Clone, Debug, PartialEq)]
pub struct PErr {
    pub start: usize,
    pub len: usize,
    /// implementation token id of the error lexeme
    pub tok_id: usize,
    pub faulty: bool,
    pub stidx: usize,
    pub repairs: Vec<Vec<Rep>>,
}

pub const EOF_TOK: usize = usize::MAX - 1;

pub fn convert_errors<T: 'static + PrimInt + Unsigned + Hash + Debug>(
    b: &Built<T>,
    errs: &[LexParseError<T, DefaultLexerTypes<T>>],
) -> Result<Vec<PErr>, String>
where
    usize: AsPrimitive<T>,
{
    let mut out = vec![];
    for e in errs {
        match e {
            LexParseError::LexError(_) => return Err("lexing error from the harness lexer".into()),
            LexParseError::ParseError(pe) => {
                let l = pe.lexeme();
                let conv = |t: TIdx<T>| -> usize {
                    if t == b.grm.eof_token_idx() {
                        EOF_TOK
                    } else {
                        b.ag_token(t).unwrap_or(usize::MAX)
                    }
                };
                out.push(PErr {
                    start: l.span().start(),
                    len: l.span().len(),
                    tok_id: num_traits::cast(l.tok_id()).unwrap(),
                    faulty: l.faulty(),
                    stidx: usize::from(pe.stidx()),
                    repairs: pe
                        .repairs()
                        .iter()
                        .map(|seq| {
                            seq.iter()
                                .map(|r| match r {
                                    ParseRepair::Insert(t) => Rep::Insert(conv(*t)),
                                    ParseRepair::Delete(l) => Rep::Delete(l.span().start()),
                                    ParseRepair::Shift(l) => Rep::Shift(l.span().start()),
                                })
                                .collect()
                        })
                        .collect(),
                });
            }
        }
    }
    Ok(out)
}

/// Parse AG-token input with the generic tree mode.
pub fn parse_tree<T: 'static + PrimInt + Unsigned + Hash + Debug>(
    b: &Built<T>,
    input: &[usize],
    layout: &Layout,
    rk: RecoveryKind,
    costs: Option<&[u8]>,
) -> Result<(Option<ITree>, Vec<PErr>), String>
where
    usize: AsPrimitive<T>,
{
    let toks: Vec<usize> = input.iter().map(|t| b.tok_usize(*t)).collect();
    let lexer = VLexer::<T>::new(&toks, layout);
    // cost per implementation token id
    let ntok = usize::from(b.grm.tokens_len());
    let mut cost_by_tidx = vec![1u8; ntok];
    if let Some(c) = costs {
        for (agt, tidx) in b.tok.iter().enumerate() {
            cost_by_tidx[usize::from(*tidx)] = c[agt];
        }
    }
    let cf = |t: TIdx<T>| cost_by_tidx[usize::from(t)];
    let pb = RTParserBuilder::new(&b.grm, &b.st)
        .recoverer(rk)
        .term_costs(&cf);
    let (tree, errs) = pb.parse_generictree(&lexer);
    let errs = convert_errors(b, &errs)?;
    Ok((tree.map(|t| convert_node(b, &t)), errs))
}

/// Parse an input whose lexeme `k` is unlexable text (generic tree mode and action-free map mode):
/// (value present, number of parse errors, start offsets of the reported lexing errors) per mode.
pub fn parse_with_lex_error(
    b: &Built<u32>,
    input: &[usize],
    layout: &Layout,
    rk: RecoveryKind,
    k: usize,
    goes_on: bool,
) -> Vec<(&'static str, bool, usize, Vec<usize>)> {
    let toks: Vec<usize> = input.iter().map(|t| b.tok_usize(*t)).collect();
    let mut lexer = VLexer::<u32>::new(&toks, layout);
    lexer.lex_error = Some((k, goes_on));
    let summarise = |errs: &[LexParseError<u32, DefaultLexerTypes<u32>>]| -> (usize, Vec<usize>) {
        let mut pe = 0;
        let mut le = vec![];
        for e in errs {
            match e {
                LexParseError::LexError(e) => le.push(lrpar::LexError::span(e).start()),
                LexParseError::ParseError(_) => pe += 1,
            }
        }
        (pe, le)
    };
    let mut out = vec![];
    let pb = RTParserBuilder::new(&b.grm, &b.st).recoverer(rk);
    let (tree, errs) = pb.parse_generictree(&lexer);
    let (pe, le) = summarise(&errs);
    out.push(("parse_generictree", tree.is_some(), pe, le));
    let pb = RTParserBuilder::new(&b.grm, &b.st).recoverer(rk);
    let (v, errs) = pb.parse_map(&lexer, &|_| 0usize, &|_, _| 0usize);
    let (pe, le) = summarise(&errs);
    out.push(("parse_map", v.is_some(), pe, le));
    let nprods = usize::from(b.grm.prods_len());
    type Act<'x> = dyn Fn(cfgrammar::RIdx<u32>, &dyn NonStreamingLexer<DefaultLexerTypes<u32>>, Span, std::vec::Drain<lrpar::parser::AStackType<DefaultLexeme<u32>, usize>>, ()) -> usize + 'x;
    let act: &Act = &|_, _, _, args, _| args.count();
    let acts: Vec<&Act> = (0..nprods).map(|_| act).collect();
    let pb = RTParserBuilder::new(&b.grm, &b.st).recoverer(rk);
    let (v, errs) = pb.parse_actions(&lexer, &acts, ());
    let (pe, le) = summarise(&errs);
    out.push(("parse_actions", v.is_some(), pe, le));
    out
}

/// Debug aid: simulate the plain LR loop over the public table API and print the steps.
pub fn trace_lr(b: &Built<u32>, input: &[usize], max_steps: usize) -> String {
    use lrtable::Action;
    let mut out = String::new();
    let mut stack = vec![b.st.start_state()];
    let mut i = 0;
    for _ in 0..max_steps {
        let la = if i < input.len() { b.tok[input[i]] } else { b.grm.eof_token_idx() };
        let st = *stack.last().unwrap();
        let a = b.st.action(st, la);
        out.push_str(&format!("st {:?} la {:?} stack_len {} -> {:?}\n", usize::from(st), b.grm.token_name(la), stack.len(), a));
        match a {
            Action::Shift(s) => { stack.push(s); i += 1; }
            Action::Reduce(p) => {
                let n = b.grm.prod(p).len();
                stack.truncate(stack.len() - n);
                let g = b.st.goto(*stack.last().unwrap(), b.grm.prod_to_rule(p)).unwrap();
                out.push_str(&format!("   reduce {}\n", b.grm.pp_prod(p)));
                stack.push(g);
            }
            _ => break,
        }
    }
    out
}

/// A Yacc-style LR parser can reduce forever without consuming input when conflict resolution
/// (default or by precedence) prefers an empty/unit reduction inside a hidden left recursion, or
/// when the grammar has a derivation cycle. `table_loop_witness_raw` searches the table for such
/// a run (see there). It may over-approximate (the base configuration need not be reachable
/// with that lookahead), so it is used to *restrict domains*, never as an oracle.
pub fn table_loop_witness<T: 'static + PrimInt + Unsigned + Hash + Debug>(
    b: &Built<T>,
) -> Option<(usize, usize)>
where
    usize: AsPrimitive<T>,
{
    table_loop_witness_raw(&b.grm, &b.st, usize::from(b.sg.all_states_len()))
}

pub fn table_loop_witness_raw<T: 'static + PrimInt + Unsigned + Hash + Debug>(
    grm: &YaccGrammar<T>,
    st: &StateTable<T>,
    nstates: usize,
) -> Option<(usize, usize)>
where
    usize: AsPrimitive<T>,
{
    use lrtable::Action;
    // If an infinite run of reductions exists, consider the stacks after each complete step:
    // from some point on their height never drops below some h+1, and the state at height h
    // (call it q) is never popped again. At a moment of minimal height the stack ends in
    // [q, x] with x a successor of q (goto or shift target), and the rest of the run depends
    // only on (q, x, lookahead). So: simulate from every two-element stack [q, x] for every
    // token, allowing pops down to - but not including - q.
    let limit = 200 + 20 * nstates;
    for q in (0..nstates).map(|x| lrtable::StIdx::<T>(x.as_())) {
        let mut succ: Vec<lrtable::StIdx<T>> = vec![];
        for r in grm.iter_rules() {
            if let Some(x) = st.goto(q, r) {
                if !succ.contains(&x) {
                    succ.push(x);
                }
            }
        }
        for t in grm.iter_tidxs() {
            if let Action::Shift(x) = st.action(q, t) {
                if !succ.contains(&x) {
                    succ.push(x);
                }
            }
        }
        for x in succ {
            for t in grm.iter_tidxs() {
                let mut stack = vec![q, x];
                let mut steps = 0usize;
                loop {
                    match st.action(*stack.last().unwrap(), t) {
                        Action::Reduce(p) => {
                            let n = grm.prod(p).len();
                            if n > stack.len() - 1 {
                                break; // would pop q: needs context below the base
                            }
                            stack.truncate(stack.len() - n);
                            match st.goto(*stack.last().unwrap(), grm.prod_to_rule(p)) {
                                Some(g) => stack.push(g),
                                None => break,
                            }
                        }
                        _ => break,
                    }
                    steps += 1;
                    if steps > limit {
                        return Some((usize::from(q), usize::from(t)));
                    }
                }
            }
        }
    }
    // the start configuration [start] itself
    for t in grm.iter_tidxs() {
        let mut stack = vec![st.start_state()];
        let mut steps = 0usize;
        loop {
            match st.action(*stack.last().unwrap(), t) {
                Action::Reduce(p) => {
                    let n = grm.prod(p).len();
                    if n > stack.len() - 1 {
                        break;
                    }
                    stack.truncate(stack.len() - n);
                    match st.goto(*stack.last().unwrap(), grm.prod_to_rule(p)) {
                        Some(g) => stack.push(g),
                        None => break,
                    }
                }
                _ => break,
            }
            steps += 1;
            if steps > limit {
                return Some((usize::from(st.start_state()), usize::from(t)));
            }
        }
    }
    None
}

/// Plain LR simulation of a concrete input over the public table API; returns true if more than
/// `max_reductions` consecutive reductions happen without a shift (a non-consuming loop).
pub fn input_loops<T: 'static + PrimInt + Unsigned + Hash + Debug>(
    b: &Built<T>,
    input: &[usize],
    max_reductions: usize,
) -> bool
where
    usize: AsPrimitive<T>,
{
    use lrtable::Action;
    let mut stack = vec![b.st.start_state()];
    let mut i = 0;
    let mut reds = 0;
    loop {
        let la = if i < input.len() {
            b.tok[input[i]]
        } else {
            b.grm.eof_token_idx()
        };
        match b.st.action(*stack.last().unwrap(), la) {
            Action::Shift(s) => {
                stack.push(s);
                i += 1;
                reds = 0;
            }
            Action::Reduce(p) => {
                let n = b.grm.prod(p).len();
                stack.truncate(stack.len() - n);
                let g = b.st.goto(*stack.last().unwrap(), b.grm.prod_to_rule(p)).unwrap();
                stack.push(g);
                reds += 1;
                if reds > max_reductions {
                    return true;
                }
            }
            _ => return false,
        }
    }
}

/// Parse with CPCT+ recovery under the verification hooks: practically unlimited time budget,
/// deterministic expansion cap. Third component: the cap fired (the case must not be judged).
pub fn parse_tree_rec<T: 'static + PrimInt + Unsigned + Hash + Debug>(
    b: &Built<T>,
    input: &[usize],
    layout: &Layout,
    costs: Option<&[u8]>,
    cap: u64,
) -> Result<(Option<ITree>, Vec<PErr>, bool), String>
where
    usize: AsPrimitive<T>,
{
    lrpar::verif_hooks::set_budget_ms(Some(86_400_000));
    lrpar::verif_hooks::set_expansion_cap(cap);
    let r = parse_tree(b, input, layout, RecoveryKind::CPCTPlus, costs);
    let hit = lrpar::verif_hooks::cap_hit();
    lrpar::verif_hooks::set_expansion_cap(u64::MAX);
    r.map(|(t, e)| (t, e, hit))
}

/// Recovering parse whose time budget is already used up when the first error is met: the search
/// must give up at once (no repairs), and the parse must still return.
pub fn parse_tree_no_budget(b: &Built<u32>, input: &[usize], layout: &Layout, costs: Option<&[u8]>) -> Result<(Option<ITree>, Vec<PErr>), String> {
    lrpar::verif_hooks::set_budget_ms(Some(0));
    lrpar::verif_hooks::set_expansion_cap(u64::MAX);
    let r = parse_tree(b, input, layout, RecoveryKind::CPCTPlus, costs);
    lrpar::verif_hooks::set_budget_ms(Some(86_400_000));
    r
}

/// Index of the input lexeme an error points at (`n` = end of input), with the well-formedness
/// of that lexeme checked against the layout.
pub fn error_index<T: 'static + PrimInt + Unsigned + Hash + Debug>(
    b: &Built<T>,
    e: &PErr,
    input: &[usize],
    layout: &Layout,
) -> Result<usize, String>
where
    usize: AsPrimitive<T>,
{
    let spans = layout.spans();
    let eof = usize::from(b.grm.eof_token_idx());
    if e.tok_id == eof {
        let end = spans.last().map(|(s, l)| s + l).unwrap_or(0);
        if e.len != 0 || e.start != end {
            return Err(format!(
                "end-of-input error lexeme is at {}..{} but the last lexeme ends at {}",
                e.start,
                e.start + e.len,
                end
            ));
        }
        return Ok(input.len());
    }
    let i = spans
        .iter()
        .position(|(s, _)| *s == e.start)
        .ok_or_else(|| format!("error lexeme at offset {} is not an input lexeme", e.start))?;
    if e.len != spans[i].1 || e.tok_id != b.tok_usize(input[i]) || e.faulty {
        return Err(format!(
            "error lexeme (tok id {}, {}..{}, faulty {}) differs from input lexeme {i}",
            e.tok_id,
            e.start,
            e.start + e.len,
            e.faulty
        ));
    }
    Ok(i)
}

/// Number of reductions the table-driven LR loop performs on the offending lookahead before it
/// reaches the error entry (classification only; simulated over the public table API).
pub fn reductions_before_error<T: 'static + PrimInt + Unsigned + Hash + Debug>(
    b: &Built<T>,
    input: &[usize],
) -> usize
where
    usize: AsPrimitive<T>,
{
    use lrtable::Action;
    let mut stack = vec![b.st.start_state()];
    let mut i = 0;
    let mut reds = 0;
    for _ in 0..100_000 {
        let la = if i < input.len() {
            b.tok[input[i]]
        } else {
            b.grm.eof_token_idx()
        };
        match b.st.action(*stack.last().unwrap(), la) {
            Action::Shift(s) => {
                stack.push(s);
                i += 1;
                reds = 0;
            }
            Action::Reduce(p) => {
                let n = b.grm.prod(p).len();
                stack.truncate(stack.len() - n);
                match b.st.goto(*stack.last().unwrap(), b.grm.prod_to_rule(p)) {
                    Some(g) => stack.push(g),
                    None => return reds,
                }
                reds += 1;
            }
            Action::Error => return reds,
            Action::Accept => return 0,
        }
    }
    reds
}

/// Grammar only (no tables): (grammar, AG token -> TIdx, AG rule -> RIdx).
pub fn build_grammar_only<T: 'static + PrimInt + Unsigned + Hash + Debug>(
    ag: &AG,
    src: String,
    kind: YaccKind,
) -> Result<(YaccGrammar<T>, Vec<TIdx<T>>, Vec<RIdx<T>>), BuildErr>
where
    usize: AsPrimitive<T>,
{
    let grm = YaccGrammar::<T>::new_with_storaget(kind, &src)
        .map_err(|e| BuildErr::Grammar(format!("{:?}", e)))?;
    let mut tok = vec![];
    for t in &ag.tokens {
        tok.push(
            grm.token_idx(t)
                .ok_or_else(|| BuildErr::Grammar(format!("token {t} missing")))?,
        );
    }
    let mut rule = vec![];
    for r in &ag.rules {
        rule.push(
            grm.rule_idx(&r.name)
                .ok_or_else(|| BuildErr::Grammar(format!("rule {} missing", r.name)))?,
        );
    }
    Ok((grm, tok, rule))
}

/// Deterministic bound on recovery search steps per parse. Kept low on purpose: the search's
/// `todo` vector grows by (cost+1) slots per neighbour (dijkstra.rs `todo.resize(todo.len() + off
/// + 1, ..)`), i.e. memory is quadratic in the cost level reached, and an unsuccessful search
/// climbs one cost level every few steps (20000 steps reached cost 1400 and 14 GB).
pub const RECOVERY_CAP: u64 = 1500;

/// Canonical text of a parse result in implementation indices (used to compare two grammars /
/// tables that are supposed to be observationally identical). With recovery only the first
/// error is printed with its repairs as a sorted set (which repair is applied among equally
/// ranked ones is documented as non-deterministic, so later errors may legitimately differ).
pub fn parse_digest<T: 'static + PrimInt + Unsigned + Hash + Debug>(
    grm: &YaccGrammar<T>,
    st: &StateTable<T>,
    toks: &[usize],
    layout: &Layout,
    recover: bool,
) -> String
where
    usize: AsPrimitive<T>,
{
    fn show<T: 'static + PrimInt + Unsigned + Hash + Debug>(n: &Node<DefaultLexeme<T>, T>, out: &mut String)
    where
        usize: AsPrimitive<T>,
    {
        match n {
            Node::Term { lexeme } => {
                let id: usize = num_traits::cast(lexeme.tok_id()).unwrap();
                out.push_str(&format!("t{}@{}+{}{}", id, lexeme.span().start(), lexeme.span().len(), if lexeme.faulty() { "!" } else { "" }));
            }
            Node::Nonterm { ridx, nodes } => {
                out.push_str(&format!("(r{}", usize::from(*ridx)));
                for k in nodes {
                    out.push(' ');
                    show(k, out);
                }
                out.push(')');
            }
        }
    }
    let lexer = VLexer::<T>::new(toks, layout);
    if recover {
        lrpar::verif_hooks::set_budget_ms(Some(86_400_000));
        lrpar::verif_hooks::set_expansion_cap(RECOVERY_CAP);
    }
    let pb = RTParserBuilder::new(grm, st).recoverer(if recover { RecoveryKind::CPCTPlus } else { RecoveryKind::None });
    let (tree, errs) = pb.parse_generictree(&lexer);
    let hit = if recover {
        let h = lrpar::verif_hooks::cap_hit();
        lrpar::verif_hooks::set_expansion_cap(u64::MAX);
        h
    } else {
        false
    };
    if hit {
        return "cap-hit".to_string();
    }
    let mut out = String::new();
    if !recover {
        match &tree {
            Some(t) => show(t, &mut out),
            None => out.push_str("none"),
        }
    } else {
        out.push_str(if errs.is_empty() { "clean " } else { "errors " });
        if errs.is_empty() {
            if let Some(t) = &tree {
                show(t, &mut out);
            }
        }
    }
    if let Some(LexParseError::ParseError(pe)) = errs.first() {
        let l = pe.lexeme();
        let id: usize = num_traits::cast(l.tok_id()).unwrap();
        // the state number is deliberately left out: state numbering may legitimately differ
        // between storage widths (finding C20-state-numbering-depends-on-width)
        let _ = pe.stidx();
        out.push_str(&format!(" | first error at t{}@{}+{}", id, l.span().start(), l.span().len()));
        let mut reps: Vec<String> = pe
            .repairs()
            .iter()
            .map(|seq| {
                seq.iter()
                    .map(|r| match r {
                        ParseRepair::Insert(t) => format!("I{}", usize::from(*t)),
                        ParseRepair::Delete(l) => format!("D@{}", l.span().start()),
                        ParseRepair::Shift(l) => format!("S@{}", l.span().start()),
                    })
                    .collect::<Vec<_>>()
                    .join(",")
            })
            .collect();
        reps.sort();
        out.push_str(&format!(" repairs {:?}", reps));
    }
    if !recover {
        out.push_str(&format!(" | {} errors", errs.len()));
    }
    out
}

#![no_main]
// Choice-stream target: the bytes feed the same decoder the proptest strategies use, so
// coverage feedback steers grammar / specification shapes. The property is selected with the
// environment variable GTV_FUZZ_PROP (C01, C02, C03, C04, C05, C06, C07, C08, C09, C10, C11,
// C16, C17).
use libfuzzer_sys::fuzz_target;

fuzz_target!(|data: &[u8]| {
    gtv::fuzzglue::run_choices(data);
});

#![no_main]
// C12: the bytes are the specification text (lossy UTF-8). Same oracle as the proptest path.
use libfuzzer_sys::fuzz_target;

fuzz_target!(|data: &[u8]| {
    gtv::fuzzglue::run_case("C12", gtv::fuzzglue::c12_case(data));
});

#![no_main]
// C19: bytes -> text and chunk cuts. Same oracle as the proptest path.
use libfuzzer_sys::fuzz_target;

fuzz_target!(|data: &[u8]| {
    gtv::fuzzglue::run_case("C19", gtv::fuzzglue::c19_case(data));
});

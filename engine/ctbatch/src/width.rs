// Included once per storage width (see main.rs): `T` is the storage type of the module.
use super::*;
pub type LT = DefaultLexerTypes<T>;

/// Everything a lexer definition says about its rules and start states.
pub fn describe_lexerdef(ld: &LRNonStreamingLexerDef<LT>) -> String {
    let mut s = String::new();
    for r in ld.iter_rules() {
        s.push_str(&format!(
            "rule id={:?} name={:?} name_span={:?} re={:?} states={:?} target={:?}\n",
            r.tok_id(),
            r.name(),
            r.name_span(),
            r.re_str(),
            r.start_states(),
            r.target_state()
        ));
    }
    for st in ld.iter_start_states() {
        s.push_str(&format!("state {:?}\n", st));
    }
    s
}

pub fn show_lexemes(lexer: &dyn Lexer<LT>) -> String {
    let mut s = String::new();
    for r in lexer.iter() {
        match r {
            Ok(l) => s.push_str(&format!("{}@{}+{} ", l.tok_id(), l.span().start(), l.span().len())),
            Err(e) => s.push_str(&format!("ERR@{}/{:?} ", e.span().start(), e.lexing_state())),
        }
    }
    s
}

pub fn show_tree(n: &Node<DefaultLexeme<T>, T>) -> String {
    match n {
        Node::Term { lexeme } => format!("t{}@{}+{}{}", lexeme.tok_id(), lexeme.span().start(), lexeme.span().len(), if lexeme.faulty() { "!" } else { "" }),
        Node::Nonterm { ridx, nodes } => format!("(r{} {})", usize::from(*ridx), nodes.iter().map(show_tree).collect::<Vec<_>>().join(" ")),
    }
}

/// One string per error: position plus the repair sequences as a sorted set.
pub fn conv_errors(errs: Vec<LexParseError<T, LT>>) -> Vec<String> {
    errs.iter()
        .map(|e| match e {
            LexParseError::LexError(e) => format!("lex@{}", e.span().start()),
            LexParseError::ParseError(pe) => {
                let l = pe.lexeme();
                let mut reps: Vec<String> = pe
                    .repairs()
                    .iter()
                    .map(|seq| {
                        seq.iter()
                            .map(|r| match r {
                                ParseRepair::Insert(t) => format!("I{}", usize::from(*t)),
                                ParseRepair::Delete(l) => format!("D@{}", l.span().start()),
                                ParseRepair::Shift(l) => format!("S@{}", l.span().start()),
                            })
                            .collect::<Vec<_>>()
                            .join(",")
                    })
                    .collect();
                reps.sort();
                format!("parse t{}@{}+{} st{} {:?}", l.tok_id(), l.span().start(), l.span().len(), usize::from(pe.stidx()), reps)
            }
        })
        .collect()
}

/// The run-time pipeline on the same sources.
pub struct Rt {
    grm: YaccGrammar<T>,
    st: lrtable::StateTable<T>,
    ld: LRNonStreamingLexerDef<LT>,
    kind: String,
    rk: RecoveryKind,
    /// %parse-param of the pair: "none" | "u64" | "generic" | "log", and the value passed
    param: String,
    pval: u64,
    /// rules whose action type is the unit type (by rule index of the grammar)
    unit: Vec<bool>,
}

/// What the run-time twin of the action template receives as parse parameter.
#[derive(Clone)]
pub struct RtParam {
    pval: u64,
    log: std::rc::Rc<std::cell::RefCell<Vec<String>>>,
}

pub fn build_rt(p: &Value, ysrc: &str, lsrc: &str) -> Result<Rt, String> {
    let kind = p["kind"].as_str().unwrap().to_string();
    let yk = match kind.as_str() {
        "Grmtools" => YaccKind::Grmtools,
        "NoAction" => YaccKind::Original(YaccOriginalActionKind::NoAction),
        "UserAction" => YaccKind::Original(YaccOriginalActionKind::UserAction),
        _ => YaccKind::Original(YaccOriginalActionKind::GenericParseTree),
    };
    let grm = YaccGrammar::<T>::new_with_storaget(yk, ysrc).map_err(|e| format!("rt grammar: {e:?}"))?;
    let (_, st) = from_yacc(&grm, Minimiser::Pager).map_err(|e| format!("rt table: {e}"))?;
    let s = &p["settings"];
    let mut ld = if s["builder_case_insensitive"].is_boolean() || s["builder_dot_matches_new_line"].is_boolean() {
        // flags given through the builder: the header of the .l file (none in that case) is not used
        let mut f = UNSPECIFIED_LEX_FLAGS;
        f.case_insensitive = s["builder_case_insensitive"].as_bool();
        f.dot_matches_new_line = s["builder_dot_matches_new_line"].as_bool();
        LRNonStreamingLexerDef::<LT>::new_with_options(lsrc, f).map_err(|e| format!("rt lexer: {:?}", e.iter().map(|x| x.to_string()).collect::<Vec<_>>()))?
    } else {
        LRNonStreamingLexerDef::<LT>::from_str(lsrc).map_err(|e| format!("rt lexer: {:?}", e.iter().map(|x| x.to_string()).collect::<Vec<_>>()))?
    };
    let map: HashMap<&str, T> = grm.tokens_map().iter().map(|(k, v)| (*k, usize::from(*v) as T)).collect();
    ld.set_rule_ids(&map);
    // effective recoverer: builder setting wins over the header, default CPCT+
    let rk = match (s["builder_recoverer"].as_str(), s["header_recoverer"].as_str()) {
        (Some("None"), _) => RecoveryKind::None,
        (Some(_), _) => RecoveryKind::CPCTPlus,
        (None, Some("None")) => RecoveryKind::None,
        _ => RecoveryKind::CPCTPlus,
    };
    let param = s["param"].as_str().unwrap_or("none").to_string();
    let pval = 7 + p["id"].as_u64().unwrap() % 5;
    // unit_rules is indexed by the source order of the user's rules; map through the rule names
    let mut unit = vec![false; usize::from(grm.rules_len())];
    if let (Some(u), Some(names)) = (s["unit_rules"].as_array(), p["rules"].as_array()) {
        for (b, n) in u.iter().zip(names.iter()) {
            if b.as_bool() == Some(true) {
                if let Some(r) = grm.rule_idx(n.as_str().unwrap()) {
                    unit[usize::from(r)] = true;
                }
            }
        }
    }
    Ok(Rt { grm, st, ld, kind, rk, param, pval, unit })
}

pub fn rt_parse(rt: &Rt, input: &str) -> CtOut {
    let lexer = rt.ld.lexer(input);
    let lexed = show_lexemes(&lexer);
    let pb = RTParserBuilder::<T, LT>::new(&rt.grm, &rt.st).recoverer(rt.rk);
    match rt.kind.as_str() {
        "Grmtools" | "UserAction" => {
            // the action template of the generated grammars, evaluated natively
            let nprods = usize::from(rt.grm.prods_len());
            type Act<'x> = Box<dyn Fn(RIdx<T>, &dyn NonStreamingLexer<LT>, Span, std::vec::Drain<AStackType<DefaultLexeme<T>, String>>, RtParam) -> String + 'x>;
            let mut boxed: Vec<Act> = vec![];
            for p in 0..nprods {
                let mode = rt.param.clone();
                let unit_rule = rt.unit[usize::from(rt.grm.prod_to_rule(cfgrammar::PIdx(p as T)))];
                boxed.push(Box::new(move |_ridx, lexer, span, args, prm: RtParam| {
                    let mut s = format!("p{p}[{}..{} $ ", span.start(), span.end());
                    match mode.as_str() {
                        "u64" | "generic" => s.push_str(&format!("P{} ", prm.pval)),
                        _ => {}
                    }
                    for a in args {
                        match a {
                            AStackType::ActionType(v) => {
                                s.push_str(&v);
                                s.push(',');
                            }
                            AStackType::Lexeme(l) => {
                                if l.faulty() {
                                    s.push_str(&format!("E{}@{},", l.tok_id(), l.span().start()));
                                } else {
                                    s.push_str(&format!("T{}:{:?},", l.tok_id(), lexer.span_str(l.span())));
                                }
                            }
                        }
                    }
                    s.push_str("]$");
                    if mode == "log" {
                        prm.log.borrow_mut().push(s.clone());
                    }
                    if unit_rule { "()".to_string() } else { s }
                }));
            }
            let refs: Vec<&dyn Fn(RIdx<T>, &dyn NonStreamingLexer<LT>, Span, std::vec::Drain<AStackType<DefaultLexeme<T>, String>>, RtParam) -> String> = boxed.iter().map(|b| &**b).collect();
            let log = std::rc::Rc::new(std::cell::RefCell::new(Vec::<String>::new()));
            let (v, e) = pb.parse_actions(&lexer, &refs, RtParam { pval: rt.pval, log: log.clone() });
            let v = if rt.param == "log" {
                v.map(|v| format!("{v} LOG[{}]", log.borrow().join(";"))).or_else(|| Some(format!("<none> LOG[{}]", log.borrow().join(";"))))
            } else {
                v
            };
            CtOut { lexed, value: v, errors: conv_errors(e) }
        }
        "NoAction" => {
            let e = pb.parse_map(&lexer, &|_| (), &|_, _| ()).1;
            CtOut { lexed, value: if e.is_empty() { Some("()".into()) } else { None }, errors: conv_errors(e) }
        }
        _ => {
            let (v, e) = pb.parse_generictree(&lexer);
            CtOut { lexed, value: v.map(|t| show_tree(&t)), errors: conv_errors(e) }
        }
    }
}


impl crate::RtPair for Rt {
    fn kind(&self) -> &str {
        &self.kind
    }
    fn param(&self) -> &str {
        &self.param
    }
    fn has_unit(&self) -> bool {
        self.unit.iter().any(|b| *b)
    }
    fn parse(&self, inp: &str) -> CtOut {
        rt_parse(self, inp)
    }
    fn token_epps(&self) -> Vec<(u32, Option<String>)> {
        self.grm.iter_tidxs().map(|t| (usize::from(t) as u32, self.grm.token_epp(t).map(|s| s.to_string()))).collect()
    }
    fn rule_idx(&self, n: &str) -> Option<usize> {
        self.grm.rule_idx(n).map(usize::from)
    }
    fn token_idx(&self, n: &str) -> Option<usize> {
        self.grm.token_idx(n).map(usize::from)
    }
}

pub fn build_pair(p: &Value, ysrc: &str, lsrc: &str) -> Result<Box<dyn crate::RtPair>, String> {
    build_rt(p, ysrc, lsrc).map(|r| Box::new(r) as Box<dyn crate::RtPair>)
}

/// The run-time counterpart of a lexer-only item.
pub struct RtLexW(LRNonStreamingLexerDef<LT>);

impl crate::RtLex for RtLexW {
    fn describe(&self) -> String {
        describe_lexerdef(&self.0)
    }
    fn lex(&self, inp: &str) -> String {
        show_lexemes(&self.0.lexer(inp))
    }
    fn nstates(&self) -> usize {
        self.0.iter_start_states().count()
    }
}

/// `flags`: the flags in force when they were (also) given through the builder, else None
/// (from_str reads the section). Ids as in the item.
pub fn build_lexer(lsrc: &str, flags: Option<lrlex::LexFlags>, ids: &[(String, u32)]) -> Result<Box<dyn crate::RtLex>, String> {
    let rt = match flags {
        None => LRNonStreamingLexerDef::<LT>::from_str(lsrc),
        Some(f) => LRNonStreamingLexerDef::<LT>::new_with_options(lsrc, f),
    };
    let mut rt = rt.map_err(|e| format!("{:?}", e.iter().map(|x| x.to_string()).collect::<Vec<_>>()))?;
    let map: HashMap<&str, T> = ids.iter().map(|(k, v)| (k.as_str(), *v as T)).collect();
    rt.set_rule_ids(&map);
    Ok(Box::new(RtLexW(rt)))
}

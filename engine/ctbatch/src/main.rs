// C13 batch binary: for every pair that the compile-time builders accepted, lex and parse every
// input with the generated modules and with a lexer/parser built from the same sources at run
// time, and print one JSON report.
#![allow(clippy::all)]
#![allow(deprecated)]

use cfgrammar::yacc::{YaccGrammar, YaccKind, YaccOriginalActionKind};
use cfgrammar::{RIdx, Span, TIdx};
use lrlex::{DefaultLexeme, DefaultLexerTypes, LRNonStreamingLexerDef, LexerDef, UNSPECIFIED_LEX_FLAGS};
use lrpar::parser::AStackType;
use lrpar::{LexError, LexParseError, Lexeme, Lexer, Node, NonStreamingLexer, ParseRepair, RTParserBuilder, RecoveryKind};
use lrtable::{Minimiser, from_yacc};
use serde_json::{Value, json};
use std::collections::HashMap;
use std::sync::{Arc, Barrier};

type LT = DefaultLexerTypes<u32>;

pub struct CtOut {
    pub lexed: String,
    pub value: Option<String>,
    pub errors: Vec<String>,
}

pub struct PairFns {
    pub parse: fn(&str) -> CtOut,
    pub token_epp: fn(u32) -> Option<String>,
    pub rule_consts: fn() -> Vec<(&'static str, usize)>,
    pub token_consts: fn() -> Vec<(&'static str, usize)>,
}

pub struct LexFns {
    pub lex: fn(&str) -> String,
    pub describe: fn() -> String,
}

/// Everything a lexer definition says about its rules and start states.
pub fn describe_lexerdef(ld: &LRNonStreamingLexerDef<LT>) -> String {
    let mut s = String::new();
    for r in ld.iter_rules() {
        s.push_str(&format!(
            "rule id={:?} name={:?} re={:?} states={:?} target={:?}\n",
            r.tok_id(),
            r.name(),
            r.re_str(),
            r.start_states(),
            r.target_state()
        ));
    }
    for st in ld.iter_start_states() {
        s.push_str(&format!("state {:?}\n", st));
    }
    s
}

include!(concat!(env!("OUT_DIR"), "/mods.rs"));

pub fn show_lexemes(lexer: &dyn Lexer<LT>) -> String {
    let mut s = String::new();
    for r in lexer.iter() {
        match r {
            Ok(l) => s.push_str(&format!("{}@{}+{} ", l.tok_id(), l.span().start(), l.span().len())),
            Err(e) => s.push_str(&format!("ERR@{}/{:?} ", e.span().start(), e.lexing_state())),
        }
    }
    s
}

pub fn show_tree(n: &Node<DefaultLexeme<u32>, u32>) -> String {
    match n {
        Node::Term { lexeme } => format!("t{}@{}+{}{}", lexeme.tok_id(), lexeme.span().start(), lexeme.span().len(), if lexeme.faulty() { "!" } else { "" }),
        Node::Nonterm { ridx, nodes } => format!("(r{} {})", usize::from(*ridx), nodes.iter().map(show_tree).collect::<Vec<_>>().join(" ")),
    }
}

/// One string per error: position plus the repair sequences as a sorted set.
pub fn conv_errors(errs: Vec<LexParseError<u32, LT>>) -> Vec<String> {
    errs.iter()
        .map(|e| match e {
            LexParseError::LexError(e) => format!("lex@{}", e.span().start()),
            LexParseError::ParseError(pe) => {
                let l = pe.lexeme();
                let mut reps: Vec<String> = pe
                    .repairs()
                    .iter()
                    .map(|seq| {
                        seq.iter()
                            .map(|r| match r {
                                ParseRepair::Insert(t) => format!("I{}", usize::from(*t)),
                                ParseRepair::Delete(l) => format!("D@{}", l.span().start()),
                                ParseRepair::Shift(l) => format!("S@{}", l.span().start()),
                            })
                            .collect::<Vec<_>>()
                            .join(",")
                    })
                    .collect();
                reps.sort();
                format!("parse t{}@{}+{} st{} {:?}", l.tok_id(), l.span().start(), l.span().len(), usize::from(pe.stidx()), reps)
            }
        })
        .collect()
}

fn set_hooks() {
    #[cfg(grmtools_verif)]
    {
        lrpar::verif_hooks::set_budget_ms(Some(86_400_000));
        lrpar::verif_hooks::set_expansion_cap(1500);
    }
}

fn cap_hit() -> bool {
    #[cfg(grmtools_verif)]
    {
        return lrpar::verif_hooks::cap_hit();
    }
    #[allow(unreachable_code)]
    false
}

/// The run-time pipeline on the same sources.
struct Rt {
    grm: YaccGrammar<u32>,
    st: lrtable::StateTable<u32>,
    ld: LRNonStreamingLexerDef<LT>,
    kind: String,
    rk: RecoveryKind,
    /// %parse-param of the pair: "none" | "u64" | "generic" | "log", and the value passed
    param: String,
    pval: u64,
    /// rules whose action type is the unit type (by rule index of the grammar)
    unit: Vec<bool>,
}

/// What the run-time twin of the action template receives as parse parameter.
#[derive(Clone)]
struct RtParam {
    pval: u64,
    log: std::rc::Rc<std::cell::RefCell<Vec<String>>>,
}

fn build_rt(p: &Value, ysrc: &str, lsrc: &str) -> Result<Rt, String> {
    let kind = p["kind"].as_str().unwrap().to_string();
    let yk = match kind.as_str() {
        "Grmtools" => YaccKind::Grmtools,
        "NoAction" => YaccKind::Original(YaccOriginalActionKind::NoAction),
        "UserAction" => YaccKind::Original(YaccOriginalActionKind::UserAction),
        _ => YaccKind::Original(YaccOriginalActionKind::GenericParseTree),
    };
    let grm = YaccGrammar::<u32>::new_with_storaget(yk, ysrc).map_err(|e| format!("rt grammar: {e:?}"))?;
    let (_, st) = from_yacc(&grm, Minimiser::Pager).map_err(|e| format!("rt table: {e}"))?;
    let s = &p["settings"];
    let mut ld = if s["builder_case_insensitive"].is_boolean() || s["builder_dot_matches_new_line"].is_boolean() {
        // flags given through the builder: the header of the .l file (none in that case) is not used
        let mut f = UNSPECIFIED_LEX_FLAGS;
        f.case_insensitive = s["builder_case_insensitive"].as_bool();
        f.dot_matches_new_line = s["builder_dot_matches_new_line"].as_bool();
        LRNonStreamingLexerDef::<LT>::new_with_options(lsrc, f).map_err(|e| format!("rt lexer: {:?}", e.iter().map(|x| x.to_string()).collect::<Vec<_>>()))?
    } else {
        LRNonStreamingLexerDef::<LT>::from_str(lsrc).map_err(|e| format!("rt lexer: {:?}", e.iter().map(|x| x.to_string()).collect::<Vec<_>>()))?
    };
    let map: HashMap<&str, u32> = grm.tokens_map().iter().map(|(k, v)| (*k, u32::from(*v))).collect();
    ld.set_rule_ids(&map);
    // effective recoverer: builder setting wins over the header, default CPCT+
    let rk = match (s["builder_recoverer"].as_str(), s["header_recoverer"].as_str()) {
        (Some("None"), _) => RecoveryKind::None,
        (Some(_), _) => RecoveryKind::CPCTPlus,
        (None, Some("None")) => RecoveryKind::None,
        _ => RecoveryKind::CPCTPlus,
    };
    let param = s["param"].as_str().unwrap_or("none").to_string();
    let pval = 7 + p["id"].as_u64().unwrap() % 5;
    // unit_rules is indexed by the source order of the user's rules; map through the rule names
    let mut unit = vec![false; usize::from(grm.rules_len())];
    if let (Some(u), Some(names)) = (s["unit_rules"].as_array(), p["rules"].as_array()) {
        for (b, n) in u.iter().zip(names.iter()) {
            if b.as_bool() == Some(true) {
                if let Some(r) = grm.rule_idx(n.as_str().unwrap()) {
                    unit[usize::from(r)] = true;
                }
            }
        }
    }
    Ok(Rt { grm, st, ld, kind, rk, param, pval, unit })
}

fn rt_parse(rt: &Rt, input: &str) -> CtOut {
    let lexer = rt.ld.lexer(input);
    let lexed = show_lexemes(&lexer);
    let pb = RTParserBuilder::<u32, LT>::new(&rt.grm, &rt.st).recoverer(rt.rk);
    match rt.kind.as_str() {
        "Grmtools" | "UserAction" => {
            // the action template of the generated grammars, evaluated natively
            let nprods = usize::from(rt.grm.prods_len());
            type Act<'x> = Box<dyn Fn(RIdx<u32>, &dyn NonStreamingLexer<LT>, Span, std::vec::Drain<AStackType<DefaultLexeme<u32>, String>>, RtParam) -> String + 'x>;
            let mut boxed: Vec<Act> = vec![];
            for p in 0..nprods {
                let mode = rt.param.clone();
                let unit_rule = rt.unit[usize::from(rt.grm.prod_to_rule(cfgrammar::PIdx(p as u32)))];
                boxed.push(Box::new(move |_ridx, lexer, span, args, prm: RtParam| {
                    let mut s = format!("p{p}[{}..{} $ ", span.start(), span.end());
                    match mode.as_str() {
                        "u64" | "generic" => s.push_str(&format!("P{} ", prm.pval)),
                        _ => {}
                    }
                    for a in args {
                        match a {
                            AStackType::ActionType(v) => {
                                s.push_str(&v);
                                s.push(',');
                            }
                            AStackType::Lexeme(l) => {
                                if l.faulty() {
                                    s.push_str(&format!("E{}@{},", l.tok_id(), l.span().start()));
                                } else {
                                    s.push_str(&format!("T{}:{:?},", l.tok_id(), lexer.span_str(l.span())));
                                }
                            }
                        }
                    }
                    s.push(']');
                    if mode == "log" {
                        prm.log.borrow_mut().push(s.clone());
                    }
                    if unit_rule { "()".to_string() } else { s }
                }));
            }
            let refs: Vec<&dyn Fn(RIdx<u32>, &dyn NonStreamingLexer<LT>, Span, std::vec::Drain<AStackType<DefaultLexeme<u32>, String>>, RtParam) -> String> = boxed.iter().map(|b| &**b).collect();
            let log = std::rc::Rc::new(std::cell::RefCell::new(Vec::<String>::new()));
            let (v, e) = pb.parse_actions(&lexer, &refs, RtParam { pval: rt.pval, log: log.clone() });
            let v = if rt.param == "log" {
                v.map(|v| format!("{v} LOG[{}]", log.borrow().join(";"))).or_else(|| Some(format!("<none> LOG[{}]", log.borrow().join(";"))))
            } else {
                v
            };
            CtOut { lexed, value: v, errors: conv_errors(e) }
        }
        "NoAction" => {
            let e = pb.parse_map(&lexer, &|_| (), &|_, _| ()).1;
            CtOut { lexed, value: if e.is_empty() { Some("()".into()) } else { None }, errors: conv_errors(e) }
        }
        _ => {
            let (v, e) = pb.parse_generictree(&lexer);
            CtOut { lexed, value: v.map(|t| show_tree(&t)), errors: conv_errors(e) }
        }
    }
}

/// Comparable summary: everything when no error has more than one repair sequence, otherwise
/// only up to the first error (which of several equally ranked repairs is applied is documented
/// as non-deterministic, so what follows may legitimately differ).
fn summary(o: &CtOut) -> String {
    let multi = o.errors.iter().any(|e| e.matches("\",").count() >= 1);
    if multi {
        format!("lexed[{}] first-error[{}]", o.lexed, o.errors.first().cloned().unwrap_or_default())
    } else {
        format!("lexed[{}] value[{:?}] errors{:?}", o.lexed, o.value, o.errors)
    }
}

fn main() {
    let here = env!("CARGO_MANIFEST_DIR");
    let spec: Value = serde_json::from_str(&std::fs::read_to_string(format!("{here}/gen/spec.json")).unwrap()).unwrap();
    let mut pairs_run = 0u64;
    let mut comparisons = 0u64;
    let mut mismatches: Vec<Value> = vec![];
    let mut samples: Vec<Value> = vec![];
    let mut classes: HashMap<String, u64> = HashMap::new();
    let mut bump = |c: &str, classes: &mut HashMap<String, u64>| *classes.entry(c.to_string()).or_default() += 1;
    for p in spec["pairs"].as_array().unwrap() {
        let id = p["id"].as_u64().unwrap();
        let Some(f) = pair_fns(id) else {
            bump("pair-not-built", &mut classes);
            continue;
        };
        let ysrc = std::fs::read_to_string(format!("{here}/gen/g{id}.y")).unwrap();
        let lsrc = std::fs::read_to_string(format!("{here}/gen/g{id}.l")).unwrap();
        let rt = match build_rt(p, &ysrc, &lsrc) {
            Ok(rt) => rt,
            Err(e) => {
                mismatches.push(json!({"id": id, "what": "run-time construction fails although the compile-time builders accepted the sources", "detail": e}));
                continue;
            }
        };
        pairs_run += 1;
        bump(&format!("kind:{}", rt.kind), &mut classes);
        if rt.kind == "Grmtools" || rt.kind == "UserAction" {
            bump(&format!("parse-param:{}", rt.param), &mut classes);
            if rt.unit.iter().any(|b| *b) {
                bump("unit-typed-rules", &mut classes);
            }
        }
        let inputs: Vec<String> = p["inputs"].as_array().unwrap().iter().map(|x| x.as_str().unwrap().to_string()).collect();
        // first use from several threads at once (C15, last clause): all must equal the sequential result
        if let Some(inp0) = inputs.first() {
            let barrier = Arc::new(Barrier::new(8));
            let mut hs = vec![];
            for _ in 0..8 {
                let b = barrier.clone();
                let inp = inp0.clone();
                let parse = f.parse;
                hs.push(std::thread::spawn(move || {
                    set_hooks();
                    b.wait();
                    let o = parse(&inp);
                    (summary(&o), cap_hit())
                }));
            }
            let results: Vec<(String, bool)> = hs.into_iter().map(|h| h.join().unwrap()).collect();
            set_hooks();
            let seq = (f.parse)(inp0);
            let seq_hit = cap_hit();
            bump("threads:first-use-race", &mut classes);
            for (r, hit) in &results {
                if !hit && !seq_hit && *r != summary(&seq) {
                    mismatches.push(json!({"id": id, "what": "C15/threads: a concurrent first call differs from the sequential result", "input": inp0, "concurrent": r, "sequential": summary(&seq)}));
                    break;
                }
            }
        }
        // token_epp and constants
        for t in rt.grm.iter_tidxs() {
            let ct = (f.token_epp)(u32::from(t));
            let r = rt.grm.token_epp(t).map(|s| s.to_string());
            comparisons += 1;
            if ct != r {
                mismatches.push(json!({"id": id, "what": "token_epp differs", "token": usize::from(t), "ct": ct, "rt": r}));
            }
        }
        for (name, v) in (f.rule_consts)() {
            comparisons += 1;
            if rt.grm.rule_idx(name).map(usize::from) != Some(v) {
                mismatches.push(json!({"id": id, "what": "R_ constant differs", "rule": name, "ct": v, "rt": rt.grm.rule_idx(name).map(usize::from)}));
            }
        }
        for (name, v) in (f.token_consts)() {
            comparisons += 1;
            if rt.grm.token_idx(name).map(usize::from) != Some(v) {
                mismatches.push(json!({"id": id, "what": "N_ constant differs", "token": name, "ct": v, "rt": rt.grm.token_idx(name).map(usize::from)}));
            }
        }
        let mut nontrivial = false;
        for inp in &inputs {
            set_hooks();
            let ct = (f.parse)(inp);
            let ct_hit = cap_hit();
            set_hooks();
            let r = rt_parse(&rt, inp);
            let rt_hit = cap_hit();
            if ct_hit || rt_hit {
                bump("cap-hit", &mut classes);
                continue;
            }
            comparisons += 1;
            if !ct.errors.is_empty() {
                bump("input-with-errors", &mut classes);
                nontrivial = true;
            } else {
                bump("input-clean", &mut classes);
            }
            if ct.errors.iter().any(|e| e.contains("I")) && ct.value.is_some() {
                bump("recovered-with-insert", &mut classes);
            }
            if summary(&ct) != summary(&r) {
                mismatches.push(json!({"id": id, "what": "compile-time and run-time results differ", "input": inp, "ct": summary(&ct), "rt": summary(&r), "settings": p["settings"], "kind": p["kind"]}));
            } else if samples.len() < 6 && !ct.errors.is_empty() {
                samples.push(json!({"id": id, "kind": p["kind"], "settings": p["settings"], "grammar": ysrc, "lexer": lsrc, "input": inp, "result": summary(&ct)}));
            }
        }
        if nontrivial || p["settings"].as_object().map(|o| !o.is_empty()).unwrap_or(false) {
            bump("nontrivial-pair", &mut classes);
        }
    }
    let build_report0: Value = serde_json::from_str(&std::fs::read_to_string(format!("{here}/gen/build_report.json")).unwrap_or("[]".into())).unwrap_or(json!([]));
    // lexer-only items: generated lexer module against the run-time definition of the same text
    for p in spec["lexers"].as_array().cloned().unwrap_or_default() {
        let id = p["id"].as_u64().unwrap();
        let lsrc = std::fs::read_to_string(format!("{here}/gen/x{id}.l")).unwrap();
        let rt = match p["settings"]["rt_flags"].as_object() {
            None => LRNonStreamingLexerDef::<LT>::from_str(&lsrc),
            Some(fl) => {
                // flags given through the builder: the run-time counterpart is new_with_options
                let mut f = UNSPECIFIED_LEX_FLAGS;
                for (k, v) in fl {
                    match k.as_str() {
                        "dot_matches_new_line" => f.dot_matches_new_line = v.as_bool(),
                        "multi_line" => f.multi_line = v.as_bool(),
                        "octal" => f.octal = v.as_bool(),
                        "posix_escapes" => f.posix_escapes = v.as_bool(),
                        "allow_wholeline_comments" => f.allow_wholeline_comments = v.as_bool(),
                        "case_insensitive" => f.case_insensitive = v.as_bool(),
                        "swap_greed" => f.swap_greed = v.as_bool(),
                        "ignore_whitespace" => f.ignore_whitespace = v.as_bool(),
                        "unicode" => f.unicode = v.as_bool(),
                        "size_limit" => f.size_limit = v.as_u64().map(|n| n as usize),
                        "dfa_size_limit" => f.dfa_size_limit = v.as_u64().map(|n| n as usize),
                        "nest_limit" => f.nest_limit = v.as_u64().map(|n| n as u32),
                        _ => {}
                    }
                }
                bump(if p["settings"]["section_and_builder"] == json!(true) { "lexer-only:builder-overrides-section" } else { "lexer-only:flags-through-builder" }, &mut classes);
                LRNonStreamingLexerDef::<LT>::new_with_options(&lsrc, f)
            }
        };
        let Some(f) = lexer_fns(id) else {
            bump("lexer-not-built", &mut classes);
            if rt.is_ok() {
                let why = build_report0.as_array().and_then(|a| a.iter().find(|b| b["id"].as_u64() == Some(id) && b["lexer_only"] == json!(true))).map(|b| b["error"].clone());
                mismatches.push(json!({"id": id, "what": "compile-time lexer builder refuses a specification the run-time accepts", "detail": why}));
            }
            continue;
        };
        let mut rt = match rt {
            Ok(d) => d,
            Err(e) => {
                mismatches.push(json!({"id": id, "what": "run-time lexer construction fails although the compile-time builder accepted the source", "detail": format!("{:?}", e.iter().map(|x| x.to_string()).collect::<Vec<_>>())}));
                continue;
            }
        };
        let owned: Vec<(String, u32)> = p["ids"].as_array().unwrap().iter().map(|e| (e[0].as_str().unwrap().to_string(), e[1].as_u64().unwrap() as u32)).collect();
        let map: HashMap<&str, u32> = owned.iter().map(|(k, v)| (k.as_str(), *v)).collect();
        rt.set_rule_ids(&map);
        pairs_run += 1;
        bump("lexer-only", &mut classes);
        if rt.iter_start_states().count() > 1 {
            bump("lexer-only:start-states", &mut classes);
        }
        comparisons += 1;
        let (dc, dr) = ((f.describe)(), describe_lexerdef(&rt));
        if dc != dr {
            mismatches.push(json!({"id": id, "what": "generated lexer definition differs from the run-time one", "ct": dc, "rt": dr}));
            continue;
        }
        for inp in p["inputs"].as_array().unwrap() {
            let inp = inp.as_str().unwrap();
            comparisons += 1;
            let ct = (f.lex)(inp);
            let r = show_lexemes(&rt.lexer(inp));
            if ct != r {
                mismatches.push(json!({"id": id, "what": "compile-time and run-time lexers differ", "input": inp, "ct": ct, "rt": r, "lexer": lsrc}));
                break;
            } else if samples.len() < 8 && ct.split(' ').count() > 3 && rt.iter_start_states().count() > 1 {
                samples.push(json!({"id": id, "kind": "LexOnly", "lexer": lsrc, "input": inp, "result": ct}));
            }
        }
    }
    let build_report: Value = serde_json::from_str(&std::fs::read_to_string(format!("{here}/gen/build_report.json")).unwrap_or("[]".into())).unwrap_or(json!([]));
    println!(
        "CTBATCH {}",
        json!({"pairs_run": pairs_run, "comparisons": comparisons, "mismatches": mismatches, "samples": samples, "classes": classes, "build_report": build_report})
    );
    let _ = TIdx(0u32);
}

// C13 batch binary: for every pair that the compile-time builders accepted, lex and parse every
// input with the generated modules and with a lexer/parser built from the same sources at run
// time, and print one JSON report.
#![allow(clippy::all)]
#![allow(deprecated)]

use cfgrammar::yacc::{YaccGrammar, YaccKind, YaccOriginalActionKind};
use cfgrammar::{RIdx, Span, TIdx};
use lrlex::{DefaultLexeme, DefaultLexerTypes, LRNonStreamingLexerDef, LexerDef, UNSPECIFIED_LEX_FLAGS};
use lrpar::parser::AStackType;
use lrpar::{LexError, LexParseError, Lexeme, Lexer, Node, NonStreamingLexer, ParseRepair, RTParserBuilder, RecoveryKind};
use lrtable::{Minimiser, from_yacc};
use serde_json::{Value, json};
use std::collections::HashMap;
use std::sync::{Arc, Barrier};

/// What the comparison needs from the run-time side of a pair, whatever its storage width.
pub trait RtPair {
    fn kind(&self) -> &str;
    fn param(&self) -> &str;
    fn has_unit(&self) -> bool;
    fn parse(&self, inp: &str) -> CtOut;
    fn token_epps(&self) -> Vec<(u32, Option<String>)>;
    fn rule_idx(&self, n: &str) -> Option<usize>;
    fn token_idx(&self, n: &str) -> Option<usize>;
}

pub trait RtLex {
    fn describe(&self) -> String;
    fn lex(&self, inp: &str) -> String;
    fn nstates(&self) -> usize;
}

pub mod w32 {
    pub type T = u32;
    include!("width.rs");
}
pub mod w16 {
    pub type T = u16;
    include!("width.rs");
}
pub mod w8 {
    pub type T = u8;
    include!("width.rs");
}

pub struct CtOut {
    pub lexed: String,
    pub value: Option<String>,
    pub errors: Vec<String>,
}

pub struct PairFns {
    pub parse: fn(&str) -> CtOut,
    pub token_epp: fn(u32) -> Option<String>,
    pub rule_consts: fn() -> Vec<(&'static str, usize)>,
    pub token_consts: fn() -> Vec<(&'static str, usize)>,
}

pub struct LexFns {
    pub lex: fn(&str) -> String,
    pub describe: fn() -> String,
}

include!(concat!(env!("OUT_DIR"), "/mods.rs"));

fn set_hooks() {
    #[cfg(grmtools_verif)]
    {
        lrpar::verif_hooks::set_budget_ms(Some(86_400_000));
        lrpar::verif_hooks::set_expansion_cap(1500);
    }
}

fn cap_hit() -> bool {
    #[cfg(grmtools_verif)]
    {
        return lrpar::verif_hooks::cap_hit();
    }
    #[allow(unreachable_code)]
    false
}

/// Comparable summary: everything when no error has more than one repair sequence, otherwise
/// only up to the first error (which of several equally ranked repairs is applied is documented
/// as non-deterministic, so what follows may legitimately differ).
fn summary(o: &CtOut) -> String {
    let multi = o.errors.iter().any(|e| e.matches("\",").count() >= 1);
    if multi {
        format!("lexed[{}] first-error[{}]", o.lexed, o.errors.first().cloned().unwrap_or_default())
    } else {
        format!("lexed[{}] value[{:?}] errors{:?}", o.lexed, o.value, o.errors)
    }
}

/// Calls into a generated module; a panic there (e.g. a rule whose expression the generated
/// lexerdef() cannot compile under the flags it wrote) is a result, not a harness failure.
fn guarded<T>(f: impl FnOnce() -> T + std::panic::UnwindSafe) -> Result<T, String> {
    std::panic::catch_unwind(f).map_err(|e| {
        if let Some(s) = e.downcast_ref::<String>() {
            s.clone()
        } else if let Some(s) = e.downcast_ref::<&str>() {
            s.to_string()
        } else {
            "panic".to_string()
        }
    })
}

fn inputs_of(p: &Value) -> Vec<String> {
    p["inputs"].as_array().map(|a| a.iter().map(|x| x.as_str().unwrap_or("").to_string()).collect()).unwrap_or_default()
}

fn main() {
    let here = env!("CARGO_MANIFEST_DIR");
    std::panic::set_hook(Box::new(|_| {}));
    let spec: Value = serde_json::from_str(&std::fs::read_to_string(format!("{here}/gen/spec.json")).unwrap()).unwrap();
    let mut pairs_run = 0u64;
    let mut comparisons = 0u64;
    let mut mismatches: Vec<Value> = vec![];
    let mut samples: Vec<Value> = vec![];
    let mut classes: HashMap<String, u64> = HashMap::new();
    let mut bump = |c: &str, classes: &mut HashMap<String, u64>| *classes.entry(c.to_string()).or_default() += 1;
    for p in spec["pairs"].as_array().unwrap() {
        let id = p["id"].as_u64().unwrap();
        let ysrc = std::fs::read_to_string(format!("{here}/gen/g{id}.y")).unwrap();
        let lsrc = std::fs::read_to_string(format!("{here}/gen/g{id}.l")).unwrap();
        let rt = match p["settings"]["storaget"].as_str() {
            Some("u16") => w16::build_pair(p, &ysrc, &lsrc),
            Some("u8") => w8::build_pair(p, &ysrc, &lsrc),
            _ => w32::build_pair(p, &ysrc, &lsrc),
        };
        let Some(f) = pair_fns(id) else {
            bump("pair-not-built", &mut classes);
            // the builders refused (or panicked on) sources from which the run-time lexer and
            // parser can be built: the pairs are generated valid, conflicts are allowed and
            // warnings are not errors, so there is nothing the builders may object to
            if rt.is_ok() {
                let report: Value = serde_json::from_str(&std::fs::read_to_string(format!("{here}/gen/build_report.json")).unwrap_or("[]".into())).unwrap_or(json!([]));
                let why = report.as_array().and_then(|a| a.iter().find(|b| b["id"].as_u64() == Some(id) && b["lexer_only"] != json!(true))).map(|b| b["error"].clone());
                mismatches.push(json!({"id": id, "what": "compile-time builders refuse (or panic on) a pair the run-time construction accepts", "detail": why}));
            }
            continue;
        };
        let rt = match rt {
            Ok(rt) => rt,
            Err(e) => {
                mismatches.push(json!({"id": id, "what": "run-time construction fails although the compile-time builders accepted the sources", "detail": e}));
                continue;
            }
        };
        if let Some(inp0) = inputs_of(p).first() {
            let parse = f.parse;
            let inp = inp0.clone();
            if let Err(msg) = guarded(move || { set_hooks(); parse(&inp); }) {
                mismatches.push(json!({"id": id, "what": "the generated module panics", "input": inp0, "panic": msg}));
                continue;
            }
        }
        pairs_run += 1;
        bump(&format!("kind:{}", rt.kind()), &mut classes);
        bump(&format!("storage:{}", p["settings"]["storaget"].as_str().unwrap_or("u32")), &mut classes);
        if p["settings"]["legacy_api"] == json!(true) {
            bump("api:process_file", &mut classes);
        }
        if p["settings"]["header_yacckind_conflict"] == json!(true) {
            bump("yacckind:builder-against-header", &mut classes);
        }
        if p["settings"]["stale_rule_ids_map"] == json!(true) {
            bump("api:stale_rule_ids_map", &mut classes);
        }
        if p["settings"]["in_src"].is_string() {
            bump("api:in_src_dir", &mut classes);
        }
        if rt.kind() == "Grmtools" || rt.kind() == "UserAction" {
            bump(&format!("parse-param:{}", rt.param()), &mut classes);
            if rt.has_unit() {
                bump("unit-typed-rules", &mut classes);
            }
        }
        let inputs: Vec<String> = p["inputs"].as_array().unwrap().iter().map(|x| x.as_str().unwrap().to_string()).collect();
        // first use from several threads at once (C15, last clause): all must equal the sequential result
        if let Some(inp0) = inputs.first() {
            let barrier = Arc::new(Barrier::new(8));
            let mut hs = vec![];
            for _ in 0..8 {
                let b = barrier.clone();
                let inp = inp0.clone();
                let parse = f.parse;
                hs.push(std::thread::spawn(move || {
                    set_hooks();
                    b.wait();
                    let o = parse(&inp);
                    (summary(&o), cap_hit())
                }));
            }
            let results: Vec<(String, bool)> = hs.into_iter().map(|h| h.join().unwrap()).collect();
            set_hooks();
            let (parse0, inp_owned0) = (f.parse, inp0.clone());
            let Ok(seq) = guarded(move || parse0(&inp_owned0)) else {
                mismatches.push(json!({"id": id, "what": "the generated module panics", "input": inp0}));
                continue;
            };
            let seq_hit = cap_hit();
            bump("threads:first-use-race", &mut classes);
            for (r, hit) in &results {
                if !hit && !seq_hit && *r != summary(&seq) {
                    mismatches.push(json!({"id": id, "what": "C15/threads: a concurrent first call differs from the sequential result", "input": inp0, "concurrent": r, "sequential": summary(&seq)}));
                    break;
                }
            }
        }
        // token_epp and constants
        for (t, r) in rt.token_epps() {
            let tepp = f.token_epp;
            comparisons += 1;
            match guarded(move || tepp(t)) {
                Ok(ct) => {
                    if ct != r {
                        mismatches.push(json!({"id": id, "what": "token_epp differs", "token": t, "ct": ct, "rt": r}));
                    }
                }
                Err(msg) => mismatches.push(json!({"id": id, "what": "the generated token_epp panics", "token": t, "rt": r, "panic": msg})),
            }
        }
        for (name, v) in (f.rule_consts)() {
            comparisons += 1;
            if rt.rule_idx(name) != Some(v) {
                mismatches.push(json!({"id": id, "what": "R_ constant differs", "rule": name, "ct": v, "rt": rt.rule_idx(name)}));
            }
        }
        for (name, v) in (f.token_consts)() {
            comparisons += 1;
            if rt.token_idx(name) != Some(v) {
                mismatches.push(json!({"id": id, "what": "N_ constant differs", "token": name, "ct": v, "rt": rt.token_idx(name)}));
            }
        }
        let mut nontrivial = false;
        for inp in &inputs {
            set_hooks();
            let (parse, inp_owned) = (f.parse, inp.clone());
            let ct = match guarded(move || parse(&inp_owned)) {
                Ok(ct) => ct,
                Err(msg) => {
                    mismatches.push(json!({"id": id, "what": "the generated module panics", "input": inp, "panic": msg}));
                    break;
                }
            };
            let ct_hit = cap_hit();
            set_hooks();
            let r = rt.parse(inp);
            let rt_hit = cap_hit();
            if ct_hit || rt_hit {
                bump("cap-hit", &mut classes);
                continue;
            }
            comparisons += 1;
            if !ct.errors.is_empty() {
                bump("input-with-errors", &mut classes);
                nontrivial = true;
            } else {
                bump("input-clean", &mut classes);
            }
            if ct.errors.iter().any(|e| e.contains("I")) && ct.value.is_some() {
                bump("recovered-with-insert", &mut classes);
            }
            if summary(&ct) != summary(&r) {
                mismatches.push(json!({"id": id, "what": "compile-time and run-time results differ", "input": inp, "ct": summary(&ct), "rt": summary(&r), "settings": p["settings"], "kind": p["kind"]}));
            } else if samples.len() < 6 && !ct.errors.is_empty() {
                samples.push(json!({"id": id, "kind": p["kind"], "settings": p["settings"], "grammar": ysrc, "lexer": lsrc, "input": inp, "result": summary(&ct)}));
            }
        }
        if nontrivial || p["settings"].as_object().map(|o| !o.is_empty()).unwrap_or(false) {
            bump("nontrivial-pair", &mut classes);
        }
    }
    let build_report0: Value = serde_json::from_str(&std::fs::read_to_string(format!("{here}/gen/build_report.json")).unwrap_or("[]".into())).unwrap_or(json!([]));
    // lexer-only items: generated lexer module against the run-time definition of the same text
    for p in spec["lexers"].as_array().cloned().unwrap_or_default() {
        let id = p["id"].as_u64().unwrap();
        let lsrc = std::fs::read_to_string(format!("{here}/gen/x{id}.l")).unwrap();
        let owned: Vec<(String, u32)> = p["ids"].as_array().unwrap().iter().map(|e| (e[0].as_str().unwrap().to_string(), e[1].as_u64().unwrap() as u32)).collect();
        let flags = match p["settings"]["rt_flags"].as_object() {
            None => None,
            Some(fl) => {
                // flags given through the builder: the run-time counterpart is new_with_options
                let mut f = UNSPECIFIED_LEX_FLAGS;
                for (k, v) in fl {
                    match k.as_str() {
                        "dot_matches_new_line" => f.dot_matches_new_line = v.as_bool(),
                        "multi_line" => f.multi_line = v.as_bool(),
                        "octal" => f.octal = v.as_bool(),
                        "posix_escapes" => f.posix_escapes = v.as_bool(),
                        "allow_wholeline_comments" => f.allow_wholeline_comments = v.as_bool(),
                        "case_insensitive" => f.case_insensitive = v.as_bool(),
                        "swap_greed" => f.swap_greed = v.as_bool(),
                        "ignore_whitespace" => f.ignore_whitespace = v.as_bool(),
                        "unicode" => f.unicode = v.as_bool(),
                        "size_limit" => f.size_limit = v.as_u64().map(|n| n as usize),
                        "dfa_size_limit" => f.dfa_size_limit = v.as_u64().map(|n| n as usize),
                        "nest_limit" => f.nest_limit = v.as_u64().map(|n| n as u32),
                        _ => {}
                    }
                }
                bump(if p["settings"]["section_and_builder"] == json!(true) { "lexer-only:builder-overrides-section" } else { "lexer-only:flags-through-builder" }, &mut classes);
                Some(f)
            }
        };
        let rt = match p["settings"]["storaget"].as_str() {
            Some("u16") => w16::build_lexer(&lsrc, flags, &owned),
            Some("u8") => w8::build_lexer(&lsrc, flags, &owned),
            _ => w32::build_lexer(&lsrc, flags, &owned),
        };
        bump(&format!("lexer-only:storage:{}", p["settings"]["storaget"].as_str().unwrap_or("u32")), &mut classes);
        if let Some(fp) = p["settings"]["flag_probe"].as_str() {
            bump(&format!("flag-probe:{fp}"), &mut classes);
        }
        let Some(f) = lexer_fns(id) else {
            bump("lexer-not-built", &mut classes);
            if rt.is_ok() {
                let why = build_report0.as_array().and_then(|a| a.iter().find(|b| b["id"].as_u64() == Some(id) && b["lexer_only"] == json!(true))).map(|b| b["error"].clone());
                mismatches.push(json!({"id": id, "what": "compile-time lexer builder refuses a specification the run-time accepts", "detail": why}));
            }
            continue;
        };
        let rt = match rt {
            Ok(d) => d,
            Err(e) => {
                mismatches.push(json!({"id": id, "what": "run-time lexer construction fails although the compile-time builder accepted the source", "detail": e}));
                continue;
            }
        };
        pairs_run += 1;
        bump("lexer-only", &mut classes);
        if rt.nstates() > 1 {
            bump("lexer-only:start-states", &mut classes);
        }
        comparisons += 1;
        let describe = f.describe;
        let dc = match guarded(move || describe()) {
            Ok(d) => d,
            Err(msg) => {
                mismatches.push(json!({"id": id, "what": "the generated lexer module panics", "panic": msg, "lexer": lsrc}));
                continue;
            }
        };
        let dr = rt.describe();
        if dc != dr {
            mismatches.push(json!({"id": id, "what": "generated lexer definition differs from the run-time one", "ct": dc, "rt": dr}));
            continue;
        }
        for inp in p["inputs"].as_array().unwrap() {
            let inp = inp.as_str().unwrap();
            comparisons += 1;
            let (lexf, inp_owned) = (f.lex, inp.to_string());
            let ct = match guarded(move || lexf(&inp_owned)) {
                Ok(ct) => ct,
                Err(msg) => {
                    mismatches.push(json!({"id": id, "what": "the generated lexer module panics", "input": inp, "panic": msg, "lexer": lsrc}));
                    break;
                }
            };
            let r = rt.lex(inp);
            if ct != r {
                mismatches.push(json!({"id": id, "what": "compile-time and run-time lexers differ", "input": inp, "ct": ct, "rt": r, "lexer": lsrc}));
                break;
            } else if samples.len() < 8 && ct.split(' ').count() > 3 && rt.nstates() > 1 {
                samples.push(json!({"id": id, "kind": "LexOnly", "lexer": lsrc, "input": inp, "result": ct}));
            }
        }
    }
    let build_report: Value = serde_json::from_str(&std::fs::read_to_string(format!("{here}/gen/build_report.json")).unwrap_or("[]".into())).unwrap_or(json!([]));
    println!(
        "CTBATCH {}",
        json!({"pairs_run": pairs_run, "comparisons": comparisons, "mismatches": mismatches, "samples": samples, "classes": classes, "build_report": build_report})
    );
    let _ = TIdx(0u32);
}

// Build script of the C13 batch crate: runs the compile-time builders once per pair listed in
// gen/spec.json (with that pair's settings) and generates mods.rs with the glue per pair.
use cfgrammar::yacc::{YaccKind, YaccOriginalActionKind};
use lrlex::{CTLexerBuilder, DefaultLexerTypes};
use lrpar::RecoveryKind;
use std::fmt::Write as _;
use std::path::PathBuf;

fn main() {
    println!("cargo::rerun-if-changed=gen/spec.json");
    println!("cargo::rustc-check-cfg=cfg(grmtools_verif)");
    let out = PathBuf::from(std::env::var("OUT_DIR").unwrap());
    let here = PathBuf::from(std::env::var("CARGO_MANIFEST_DIR").unwrap());
    let spec: serde_json::Value = serde_json::from_str(&std::fs::read_to_string(here.join("gen/spec.json")).unwrap()).unwrap();
    let mut mods = String::new();
    let mut calls = String::new();
    let mut report = vec![];
    for p in spec["pairs"].as_array().unwrap() {
        let i = p["id"].as_u64().unwrap();
        let kind = p["kind"].as_str().unwrap().to_string();
        let s = p["settings"].clone();
        let yp = here.join(format!("gen/g{i}.y"));
        let lp = here.join(format!("gen/g{i}.l"));
        println!("cargo::rerun-if-changed=gen/g{i}.y");
        println!("cargo::rerun-if-changed=gen/g{i}.l");
        let yout = out.join(format!("g{i}.y.rs"));
        let lout = out.join(format!("g{i}.l.rs"));
        // in_src: the sources are copied below src/ and the builders derive everything else
        let in_src: Option<String> = s["in_src"].as_str().map(|d| d.to_string());
        if let Some(d) = &in_src {
            let dir = here.join("src").join(d);
            std::fs::create_dir_all(&dir).unwrap();
            std::fs::copy(&yp, dir.join(format!("g{i}.y"))).unwrap();
            std::fs::copy(&lp, dir.join(format!("g{i}.l"))).unwrap();
        }
        let (in_src_l, in_src_y) = (in_src.clone(), in_src.clone());
        let stale_names: Vec<String> = p["ident_tokens"].as_array().map(|a| a.iter().filter_map(|t| t.as_str().map(|x| x.to_string())).collect()).unwrap_or_default();
        let ymod = format!("g{i}_y");
        let lmod = format!("g{i}_l");
        let yk = match kind.as_str() {
            "Grmtools" => YaccKind::Grmtools,
            "NoAction" => YaccKind::Original(YaccOriginalActionKind::NoAction),
            "UserAction" => YaccKind::Original(YaccOriginalActionKind::UserAction),
            _ => YaccKind::Original(YaccOriginalActionKind::GenericParseTree),
        };
        let s2 = s.clone();
        let ymod_static: &'static str = Box::leak(ymod.clone().into_boxed_str());
        let lmod_static: &'static str = Box::leak(lmod.clone().into_boxed_str());
        let (yp2, yout2) = (yp.clone(), yout.clone());
        macro_rules! build_pair_w {
            ($t:ty) => {
        std::panic::catch_unwind(move || {
            let mut lb = CTLexerBuilder::<DefaultLexerTypes<$t>>::new_with_lexemet();
            lb = match &in_src_l {
                Some(d) => lb.lexer_in_src_dir(format!("{d}/g{i}.l")).map_err(|e| e.to_string())?,
                None => lb.lexer_path(&lp).output_path(&lout).mod_name(lmod_static),
            };
            lb = lb.allow_missing_terms_in_lexer(true).allow_missing_tokens_in_parser(true).show_warnings(false);
            match s2["edition"].as_u64() {
                Some(2015) => lb = lb.rust_edition(lrlex::RustEdition::Rust2015),
                Some(2018) => lb = lb.rust_edition(lrlex::RustEdition::Rust2018),
                Some(2021) => lb = lb.rust_edition(lrlex::RustEdition::Rust2021),
                _ => {}
            }
            if s2["visibility"].as_str() == Some("Public") {
                lb = lb.visibility(lrlex::Visibility::Public);
            }
            if let Some(b) = s2["builder_case_insensitive"].as_bool() {
                lb = lb.case_insensitive(b);
            }
            if let Some(b) = s2["builder_dot_matches_new_line"].as_bool() {
                lb = lb.dot_matches_new_line(b);
            }
            let s3 = s2.clone();
            let legacy = s2["legacy_api"].as_bool() == Some(true);
            let (yp3, yout3) = (yp2.clone(), yout2.clone());
            macro_rules! cfg_parser {
                ($ctp:ident, $yp:expr, $yout:expr, $s:expr) => {{
                $ctp = match &in_src_y {
                    Some(d) => $ctp.grammar_in_src_dir(format!("{d}/g{i}.y")).unwrap(),
                    None => $ctp.grammar_path(&$yp).output_path(&$yout).mod_name(ymod_static),
                };
                $ctp = $ctp
                    .warnings_are_errors(false)
                    .show_warnings(false)
                    .error_on_conflicts(false);
                if $s["yacckind_in_header"].as_bool() != Some(true) {
                    $ctp = $ctp.yacckind(yk);
                }
                match $s["builder_recoverer"].as_str() {
                    Some("None") => $ctp = $ctp.recoverer(RecoveryKind::None),
                    Some("CPCTPlus") => $ctp = $ctp.recoverer(RecoveryKind::CPCTPlus),
                    _ => {}
                }
                match $s["serialisation"].as_str() {
                    Some("Fixed") => $ctp = $ctp.serialisation_format(lrpar::ctbuilder::SerialisationFormat::FixedSizeInteger),
                    Some("Variable") => $ctp = $ctp.serialisation_format(lrpar::ctbuilder::SerialisationFormat::VariableSizedInteger),
                    _ => {}
                }
                match $s["edition"].as_u64() {
                    Some(2015) => $ctp = $ctp.rust_edition(lrpar::RustEdition::Rust2015),
                    Some(2018) => $ctp = $ctp.rust_edition(lrpar::RustEdition::Rust2018),
                    Some(2021) => $ctp = $ctp.rust_edition(lrpar::RustEdition::Rust2021),
                    _ => {}
                }
                if $s["visibility"].as_str() == Some("Public") {
                    $ctp = $ctp.visibility(lrpar::Visibility::Public);
                }
                $ctp
            }};
            }
            if legacy {
                // the older two-step API (deprecated, still public): process_file on the parser
                // builder gives the token map, which goes into the lexer builder's process_file
                #[allow(deprecated)]
                let map = {
                    let mut ctp = lrpar::CTParserBuilder::<DefaultLexerTypes<$t>>::new();
                    let mut ctp = cfg_parser!(ctp, yp3, yout3, s3);
                    ctp.process_file(&yp3, &yout3).map_err(|e| e.to_string())?
                };
                #[allow(deprecated)]
                return lb.rule_ids_map(map).process_file(&lp, &lout).map(|_| ()).map_err(|e| e.to_string());
            }
            if s2["stale_rule_ids_map"].as_bool() == Some(true) {
                // a map set by hand before lrpar_config (say, left over from the two-step idiom
                // and an earlier grammar): right names, rotated ids; the parser's own map must win
                let n = stale_names.len();
                lb = lb.rule_ids_map(
                    stale_names.iter().enumerate().map(|(k, t)| (t.clone(), ((k + 1) % n) as $t)).collect::<std::collections::HashMap<String, $t>>(),
                );
            }
            lb = lb.lrpar_config(move |mut ctp| cfg_parser!(ctp, yp2, yout2, s3));
            lb.build().map(|_| ()).map_err(|e| e.to_string())
        })
            };
        }
        let res = match s["storaget"].as_str() {
            Some("u16") => build_pair_w!(u16),
            Some("u8") => build_pair_w!(u8),
            _ => build_pair_w!(u32),
        };
        match res {
            Ok(Ok(())) => {
                report.push(serde_json::json!({"id": i, "built": true}));
            }
            Ok(Err(e)) => {
                report.push(serde_json::json!({"id": i, "built": false, "error": e}));
                continue;
            }
            Err(_) => {
                report.push(serde_json::json!({"id": i, "built": false, "error": "builder panicked"}));
                continue;
            }
        }
        // glue
        let wmod = match s["storaget"].as_str() {
            Some("u16") => "w16",
            Some("u8") => "w8",
            _ => "w32",
        };
        let wty = match wmod {
            "w16" => "u16",
            "w8" => "u8",
            _ => "u32",
        };
        let conv = match kind.as_str() {
            "Grmtools" | "UserAction" => match s["param"].as_str() {
                Some("u64") => format!("let (v, e) = super::__Y__::parse(&lexer, {}u64); (v, crate::conv_errors(e))", 7 + i % 5),
                Some("generic") => format!("let pv: u64 = {}; let (v, e) = super::__Y__::parse(&lexer, &pv); (v, crate::conv_errors(e))", 7 + i % 5),
                Some("log") => "let log = ::std::cell::RefCell::new(Vec::<String>::new()); let (v, e) = super::__Y__::parse(&lexer, &log); (v.map(|v| format!(\"{v} LOG[{}]\", log.borrow().join(\";\"))).or_else(|| Some(format!(\"<none> LOG[{}]\", log.borrow().join(\";\")))), crate::conv_errors(e))".to_string(),
                _ => "let (v, e) = super::__Y__::parse(&lexer); (v, crate::conv_errors(e))".to_string(),
            },
            "NoAction" => "let e = super::__Y__::parse(&lexer); (if e.is_empty() { Some(String::from(\"()\")) } else { None }, crate::conv_errors(e))".to_string(),
            _ => "let (v, e) = super::__Y__::parse(&lexer); (v.map(|t| crate::show_tree(&t)), crate::conv_errors(e))".to_string(),
        }
        .replace("__Y__", &ymod)
        .replace("crate::conv_errors", &format!("crate::{wmod}::conv_errors"))
        .replace("crate::show_tree", &format!("crate::{wmod}::show_tree"));
        // rule constants: R_<NAME>
        let mut consts = String::new();
        for r in p["rules"].as_array().unwrap() {
            let n = r.as_str().unwrap();
            let _ = write!(consts, "(\"{n}\", super::{ymod}::R_{} as usize),", n.to_ascii_uppercase());
        }
        let mut tconsts = String::new();
        for t in p["ident_tokens"].as_array().unwrap() {
            let n = t.as_str().unwrap();
            let _ = write!(tconsts, "(\"{n}\", super::{lmod}::N_{} as usize),", n.to_ascii_uppercase());
        }
        let srcdir = in_src.as_ref().map(|d| format!("{d}/")).unwrap_or_default();
        let _ = write!(
            mods,
            r#"
lrlex::lrlex_mod!("{srcdir}g{i}.l");
lrpar::lrpar_mod!("{srcdir}g{i}.y");
pub mod pair_{i} {{
    use lrlex::LexerDef as _;
    pub fn parse(input: &str) -> crate::CtOut {{
        let ld = super::{lmod}::lexerdef();
        let lexer = ld.lexer(input);
        let lexed = crate::{wmod}::show_lexemes(&lexer);
        let (v, e) = {{ {conv} }};
        crate::CtOut {{ lexed, value: v, errors: e }}
    }}
    pub fn token_epp(t: u32) -> Option<String> {{
        super::{ymod}::token_epp(cfgrammar::TIdx(t as {wty})).map(|s| s.to_string())
    }}
    pub fn rule_consts() -> Vec<(&'static str, usize)> {{ vec![{consts}] }}
    pub fn token_consts() -> Vec<(&'static str, usize)> {{ vec![{tconsts}] }}
}}
"#
        );
        let _ = writeln!(
            calls,
            "        {i} => Some(crate::PairFns {{ parse: pair_{i}::parse, token_epp: pair_{i}::token_epp, rule_consts: pair_{i}::rule_consts, token_consts: pair_{i}::token_consts }}),"
        );
    }
    // lexer-only items: the lexer by itself with user-supplied token ids
    let mut lcalls = String::new();
    for p in spec["lexers"].as_array().cloned().unwrap_or_default() {
        let i = p["id"].as_u64().unwrap();
        let lp = here.join(format!("gen/x{i}.l"));
        println!("cargo::rerun-if-changed=gen/x{i}.l");
        let lout = out.join(format!("x{i}.l.rs"));
        let lmod = format!("x{i}_l");
        let lmod_static: &'static str = Box::leak(lmod.clone().into_boxed_str());
        let map: std::collections::HashMap<String, u32> = p["ids"]
            .as_array()
            .unwrap()
            .iter()
            .map(|e| (e[0].as_str().unwrap().to_string(), e[1].as_u64().unwrap() as u32))
            .collect();
        let bf = p["settings"]["builder_flags"].clone();
        let lwmod = match p["settings"]["storaget"].as_str() {
            Some("u16") => "w16",
            Some("u8") => "w8",
            _ => "w32",
        };
        macro_rules! build_lexer_w {
            ($t:ty) => {
        std::panic::catch_unwind(move || {
            let mut lb = CTLexerBuilder::<DefaultLexerTypes<$t>>::new_with_lexemet()
                .lexer_path(&lp)
                .output_path(&lout)
                .mod_name(lmod_static)
                .rule_ids_map(map.iter().map(|(k, v)| (k.clone(), *v as $t)).collect::<std::collections::HashMap<String, $t>>())
                .allow_missing_terms_in_lexer(true)
                .allow_missing_tokens_in_parser(true)
                .show_warnings(false);
            if let Some(f) = bf.as_object() {
                for (k, v) in f {
                    lb = match (k.as_str(), v.as_bool(), v.as_u64()) {
                        ("dot_matches_new_line", Some(b), _) => lb.dot_matches_new_line(b),
                        ("multi_line", Some(b), _) => lb.multi_line(b),
                        ("octal", Some(b), _) => lb.octal(b),
                        ("posix_escapes", Some(b), _) => lb.posix_escapes(b),
                        ("allow_wholeline_comments", Some(b), _) => lb.allow_wholeline_comments(b),
                        ("case_insensitive", Some(b), _) => lb.case_insensitive(b),
                        ("swap_greed", Some(b), _) => lb.swap_greed(b),
                        ("ignore_whitespace", Some(b), _) => lb.ignore_whitespace(b),
                        ("unicode", Some(b), _) => lb.unicode(b),
                        ("size_limit", _, Some(n)) => lb.size_limit(n as usize),
                        ("dfa_size_limit", _, Some(n)) => lb.dfa_size_limit(n as usize),
                        ("nest_limit", _, Some(n)) => lb.nest_limit(n as u32),
                        _ => panic!("unknown builder flag {k}"),
                    };
                }
            }
            lb.build().map(|_| ()).map_err(|e| e.to_string())
        })
            };
        }
        let res = match lwmod {
            "w16" => build_lexer_w!(u16),
            "w8" => build_lexer_w!(u8),
            _ => build_lexer_w!(u32),
        };
        match res {
            Ok(Ok(())) => report.push(serde_json::json!({"id": i, "built": true, "lexer_only": true})),
            Ok(Err(e)) => {
                report.push(serde_json::json!({"id": i, "built": false, "lexer_only": true, "error": e}));
                continue;
            }
            Err(_) => {
                report.push(serde_json::json!({"id": i, "built": false, "lexer_only": true, "error": "builder panicked"}));
                continue;
            }
        }
        let _ = write!(
            mods,
            r#"
include!(concat!(env!("OUT_DIR"), "/x{i}.l.rs"));
pub mod lex_{i} {{
    use lrlex::LexerDef as _;
    pub fn lex(input: &str) -> String {{
        let ld = super::{lmod}::lexerdef();
        let lexer = ld.lexer(input);
        crate::{lwmod}::show_lexemes(&lexer)
    }}
    pub fn describe() -> String {{
        crate::{lwmod}::describe_lexerdef(&super::{lmod}::lexerdef())
    }}
}}
"#
        );
        let _ = writeln!(lcalls, "        {i} => Some(crate::LexFns {{ lex: lex_{i}::lex, describe: lex_{i}::describe }}),");
    }
    let _ = write!(
        mods,
        "\npub fn lexer_fns(id: u64) -> Option<crate::LexFns> {{\n    match id {{\n{lcalls}        _ => None,\n    }}\n}}\n"
    );
    let _ = write!(
        mods,
        "\npub fn pair_fns(id: u64) -> Option<crate::PairFns> {{\n    match id {{\n{calls}        _ => None,\n    }}\n}}\n"
    );
    std::fs::write(out.join("mods.rs"), mods).unwrap();
    std::fs::write(out.join("build_report.json"), serde_json::to_string(&report).unwrap()).unwrap();
    // make the report reachable for the harness
    std::fs::write(here.join("gen/build_report.json"), serde_json::to_string(&report).unwrap()).unwrap();
}

#!/usr/bin/env python3
"""Extracts seed specifications from the repository into corpus/specs/ (committed; deterministic)."""
import os, re, glob, hashlib
root = os.path.dirname(os.path.dirname(os.path.abspath(__file__)))
out = os.path.join(root, "corpus", "specs")
os.makedirs(out, exist_ok=True)
items = []
for p in sorted(glob.glob("/repo/**/*.y", recursive=True) + glob.glob("/repo/**/*.l", recursive=True)):
    if "/target/" in p: continue
    items.append((os.path.splitext(p)[1][1:], open(p, encoding="utf-8", errors="replace").read()))
for p in sorted(glob.glob("/repo/lrpar/cttests/src/*.test")):
    txt = open(p, encoding="utf-8", errors="replace").read()
    # sections "grammar: |" and "lexer: |" with indented bodies
    for key, ext in (("grammar", "y"), ("lexer", "l")):
        m = re.search(r"^%s: \|\n((?:    .*\n|\n)+)" % key, txt, re.M)
        if m:
            body = "\n".join(l[4:] if l.startswith("    ") else l for l in m.group(1).split("\n"))
            items.append((ext, body))
# header snippets from the header tests
hdr = open("/repo/cfgrammar/src/lib/header.rs", encoding="utf-8").read()
for m in re.finditer(r'"(%grmtools[^"]*)"', hdr):
    items.append(("hdr", m.group(1).replace("\\n", "\n")))
for m in re.finditer(r'r#"\s*(%grmtools.*?)"#', hdr, re.S):
    items.append(("hdr", m.group(1)))
seen = set(); n = 0
for ext, body in items:
    if len(body) > 6000 or not body.strip(): continue
    h = hashlib.sha1(body.encode()).hexdigest()[:10]
    if h in seen: continue
    seen.add(h)
    open(os.path.join(out, f"{n:03d}_{h}.{ext}"), "w", encoding="utf-8").write(body)
    n += 1
print("wrote", n, "files")

#!/usr/bin/env python3
"""Rewrites the table of seeded changes in DESIGN.md (between the markers
<!-- seeded-table-begin --> and <!-- seeded-table-end -->) from seeded/*/meta.json, patch.diff and,
where present, matrix.json (exit code of every quick check with the change applied)."""
import json, os, re, glob
root = os.path.dirname(os.path.dirname(os.path.abspath(__file__)))
rows = ["| seeded change | breaks | file changed | needs, to manifest | first verdict | caught by (quick tier, now) |", "|---|---|---|---|---|---|"]
miss = 0
for d in sorted(glob.glob(os.path.join(root, "seeded", "*"))):
    mp = os.path.join(d, "meta.json")
    if not os.path.exists(mp):
        continue
    m = json.load(open(mp))
    files = sorted(set(re.findall(r"^\+\+\+ b/(\S+)", open(os.path.join(d, "patch.diff")).read(), re.M)))
    first = "missed" if "first miss" in (m.get("notes") or "") else "caught"
    if first == "missed":
        miss += 1
    caught = m.get("caught_by", "")
    mx = os.path.join(d, "matrix.json")
    if os.path.exists(mx):
        mat = json.load(open(mx))
        hits = [k for k, v in sorted(mat.items()) if v == 1]
        und = [k for k, v in sorted(mat.items()) if v not in (0, 1)]
        caught = ", ".join(hits) + (f" (no verdict: {', '.join(und)})" if und else "") + (" - " + caught if first == "missed" else "")
    esc = lambda t: t.replace("|", "\\|").replace("\n", " ")
    rows.append(f"| `{os.path.basename(d)}` | {m['breaks_property']} | {', '.join('`'+f+'`' for f in files)} | {esc(m.get('needs_to_manifest',''))} | {first} | {esc(caught)} |")
p = os.path.join(root, "DESIGN.md")
s = open(p).read()
b, e = "<!-- seeded-table-begin -->", "<!-- seeded-table-end -->"
i, j = s.index(b) + len(b), s.index(e)
s = s[:i] + "\n" + "\n".join(rows) + "\n" + s[j:]
open(p, "w").write(s)
print(f"{len(rows)-2} seeded changes, {miss} first misses")

#!/usr/bin/env python3
"""sweep_gen.py <outdir> <per_file> [seed] : operator-level mutation sweep (own sensitivity probe, in
addition to the sub-agents' hand-made changes). Writes <outdir>/NNN.diff (one single-token change
each, in the non-test part of a library file) and <outdir>/index.tsv (id, file, line, operator,
checks to run). Sampling is seeded and deterministic."""
import os, random, re, subprocess, sys
out, per_file = sys.argv[1], int(sys.argv[2])
seed = int(sys.argv[3]) if len(sys.argv) > 3 else 1
REPO = '/repo'
FILES = {
 'cfgrammar/src/lib/yacc/parser.rs': 'C10 C12',
 'cfgrammar/src/lib/yacc/ast.rs': 'C10 C12',
 'cfgrammar/src/lib/yacc/grammar.rs': 'C10 C17 C03 C14',
 'cfgrammar/src/lib/yacc/firsts.rs': 'C17 C01',
 'cfgrammar/src/lib/yacc/follows.rs': 'C17',
 'cfgrammar/src/lib/header.rs': 'C12 C11',
 'cfgrammar/src/lib/newlinecache.rs': 'C19',
 'lrtable/src/lib/itemset.rs': 'C16 C01',
 'lrtable/src/lib/pager.rs': 'C02 C16 C01',
 'lrtable/src/lib/stategraph.rs': 'C16 C20',
 'lrtable/src/lib/statetable.rs': 'C16 C03 C01',
 'lrpar/src/lib/parser.rs': 'C08 C05 C07 C04',
 'lrpar/src/lib/cpctplus.rs': 'C05 C06 C07',
 'lrpar/src/lib/dijkstra.rs': 'C06 C07',
 'lrpar/src/lib/diagnostics.rs': 'C19',
 'lrpar/src/lib/ctbuilder.rs': 'C13 C18 C03',
 'lrlex/src/lib/parser.rs': 'C11 C12 C09',
 'lrlex/src/lib/lexer.rs': 'C09 C11 C19',
 'lrlex/src/lib/ctbuilder.rs': 'C13 C18',
}
OPS = [
 (r'<=', '<'), (r'(?<= )<(?= )', '<='), (r'>=', '>'), (r'(?<= )>(?= )', '>='),
 (r'==', '!='), (r'!=', '=='), (r'&&', '||'), (r'(?<=[\w\)\]] )\|\|(?= )', '&&'),
 (r' \+ 1\b', ''), (r' - 1\b', ''), (r'(?<= )\+(?= )', '-'), (r'(?<= )-(?= )', '+'),
 (r'\bcontinue;', 'break;'), (r'\bbreak;', 'continue;'), (r'\btrue\b', 'false'), (r'\bfalse\b', 'true'),
 (r'\.is_some\(\)', '.is_none()'), (r'\.is_none\(\)', '.is_some()'),
]
SKIP = re.compile(r'^\s*(//|#\[|#!\[|use |pub use |assert|debug_assert|impl\b|pub struct|struct |where\b|fn |pub fn |pub\(crate\) fn )|panic!|unreachable!|println!|cfg\(|: \'static|PrimInt|Unsigned|Debug \+|Hash \+')
os.makedirs(out, exist_ok=True)
rng = random.Random(seed)
idx = []
n = 0
for f, checks in FILES.items():
    lines = open(os.path.join(REPO, f)).read().split('\n')
    end = len(lines)
    for i, l in enumerate(lines):
        if l.startswith('#[cfg(test)]') or l.strip() == 'mod test {' or l.strip() == 'mod tests {':
            end = i
            break
    cands = []
    for i in range(end):
        l = lines[i]
        if SKIP.search(l):
            continue
        code = l.split('//')[0] if '"' not in l else l
        for pat, rep in OPS:
            for m in re.finditer(pat, code):
                if l[:m.start()].count('"') % 2 == 1:
                    continue  # inside a string literal
                if pat in (r'(?<= )<(?= )', r'(?<= )>(?= )') and ('fn ' in l or 'impl' in l or 'where' in l or '->' in l):
                    continue
                cands.append((i, m.start(), m.end(), rep, pat))
    rng.shuffle(cands)
    for (i, s, e, rep, pat) in cands[:per_file]:
        new = lines[:]
        new[i] = lines[i][:s] + rep + lines[i][e:]
        tmp = os.path.join(out, 'tmp_new')
        open(tmp, 'w').write('\n'.join(new))
        d = subprocess.run(['diff', '-u', '--label', 'a/' + f, '--label', 'b/' + f, os.path.join(REPO, f), tmp], capture_output=True, text=True).stdout
        os.remove(tmp)
        n += 1
        open(os.path.join(out, f'{n:03d}.diff'), 'w').write(d)
        idx.append(f'{n:03d}\t{f}\t{i+1}\t{lines[i][s:e]!r}->{rep!r}\t{checks}\t{lines[i].strip()[:100]}')
open(os.path.join(out, 'index.tsv'), 'w').write('\n'.join(idx) + '\n')
print(n, 'mutants')

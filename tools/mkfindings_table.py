#!/usr/bin/env python3
"""Rewrites the findings table of DESIGN.md (between the table header line and the following
blank line) from known_findings.json."""
import json, os, re
root = os.path.dirname(os.path.dirname(os.path.abspath(__file__)))
k = json.load(open(os.path.join(root, "known_findings.json")))["findings"]
rows = ["| property | id | status | signature matched | what failed |", "|---|---|---|---|---|"]
for f in k:
    st = "open" if f["status"] == "open" else f"fixed `{f.get('commit')}`"
    what = f["what"].replace("|", "\\|").replace("\n", " ")
    rows.append(f"| {f['property']} | `{f['id']}` | {st} | `{f['signature']}` | {what} |")
p = os.path.join(root, "DESIGN.md")
s = open(p).read().split("\n")
i = next(n for n, l in enumerate(s) if l.startswith("| property | id | status"))
j = i
while j < len(s) and s[j].startswith("|"):
    j += 1
s[i:j] = rows
open(p, "w").write("\n".join(s))
fixed = sorted({f.get("commit") for f in k if f["status"] == "fixed"})
print(f"{len(k)} entries, {len(fixed)} fix commits, {sum(1 for f in k if f['status']=='open')} open")

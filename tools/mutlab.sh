#!/bin/sh
# tools/mutlab.sh try <patch.diff> <Cxx>...   : run quick checks against a seeded change WITHOUT
#   touching /repo: a scratch copy of /verif's HEAD commit (engine pointed at a scratch worktree of /repo's
#   HEAD) lives under /tmp/mutlab and is refreshed from /verif and /repo's HEAD on every call.
# tools/mutlab.sh clean                        : remove the scratch copies.
# Prints "<id> exit=<code>" per check (1 = the check reports a violation).
set -u
LAB="${MUTLAB_DIR:-/tmp/mutlab}"
VER="$(cd "$(dirname "$0")/.." && pwd)"
case "${1:-}" in
  clean)
    git -C /repo worktree remove --force "$LAB/repo" 2>/dev/null
    rm -rf "$LAB"; git -C /repo worktree prune; exit 0 ;;
  try) shift ;;
  *) echo "usage: $0 try <patch> <Cxx>... | clean" >&2; exit 2 ;;
esac
PATCH="$1"; shift
mkdir -p "$LAB"
if [ ! -d "$LAB/repo" ]; then
  git -C /repo worktree add -q --detach "$LAB/repo" HEAD || exit 2
fi
git -C "$LAB/repo" checkout -q --detach "$(git -C /repo rev-parse HEAD)" || exit 2
( cd "$LAB/repo" && git diff --name-only > "$LAB/touched.txt"; git checkout -q -- .; sleep 1.1; xargs -r touch < "$LAB/touched.txt" ) && git -C "$LAB/repo" clean -fdq -e target
# the committed state of /verif (so that edits in progress there do not leak into the trial)
rm -rf "$LAB/snap"; mkdir -p "$LAB/snap" "$LAB/verif"
git -C "$VER" archive HEAD | tar -x -C "$LAB/snap"
# by content, without copying times: unchanged files keep their time (no needless rebuild),
# changed files get the current time
rsync -rlpD --checksum --delete --exclude engine/target --exclude engine/fuzz/target --exclude work \
  --exclude evidence "$LAB/snap/" "$LAB/verif/"
rm -rf "$LAB/snap"
mkdir -p "$LAB/verif/work" "$LAB/verif/evidence"
sed -i "s#\"/repo/#\"$LAB/repo/#" "$LAB/verif/engine/gtv/Cargo.toml" "$LAB/verif/engine/ctbatch/Cargo.toml"
git -C "$LAB/repo" apply "$PATCH" || { echo "patch does not apply" >&2; exit 2; }
# cargo decides by file times: make sure the patched files are newer than anything built before
sleep 1.1
( cd "$LAB/repo" && git diff --name-only | xargs -r touch )
for id in "$@"; do
  out=$(cd "$LAB/verif" && VERIF_SEED="${VERIF_SEED:-20260925}" timeout "${MUT_TIMEOUT:-1800}" ./run.sh "$id" "${MUT_TIER:-quick}" 2>&1)
  code=$?
  echo "$out" | grep -E "^violation|^VIOLATION" | head -3 | cut -c1-400
  [ "$code" = 2 ] && echo "$out" | tail -5 | cut -c1-300
  echo "$id exit=$code"
done
( cd "$LAB/repo" && git diff --name-only > "$LAB/touched.txt"; git checkout -q -- .; sleep 1.1; xargs -r touch < "$LAB/touched.txt" )

#!/usr/bin/env python3
"""keep_mutant.py <name> <worktree> <property> "<demo cmd>" "<needs>" "<caught by>" ["<notes>"]
Stores a confirmed seeded change under /verif/seeded/<name>/ (patch.diff, demo files, meta.json)."""
import sys, os, shutil, subprocess, json
name, wt, prop, demo_cmd, needs, caught = sys.argv[1:7]
notes = sys.argv[7] if len(sys.argv) > 7 else ""
root = os.path.dirname(os.path.dirname(os.path.abspath(__file__)))
d = os.path.join(root, "seeded", name)
os.makedirs(d, exist_ok=True)
shutil.copy(os.path.join(wt, "MUTANT.diff"), os.path.join(d, "patch.diff"))
st = subprocess.check_output(["git", "-C", wt, "status", "--porcelain"], text=True)
demos = []
for l in st.splitlines():
    if l.startswith("??"):
        p = l[3:].strip()
        if p == "MUTANT.diff": continue
        src = os.path.join(wt, p)
        if os.path.isdir(src):
            for r, ds, fs in os.walk(src):
                ds[:] = [x for x in ds if x != 'target']
                for f in fs:
                    rel = os.path.relpath(os.path.join(r, f), wt)
                    os.makedirs(os.path.join(d, "demo", os.path.dirname(rel)), exist_ok=True)
                    shutil.copy(os.path.join(r, f), os.path.join(d, "demo", rel)); demos.append(rel)
        else:
            os.makedirs(os.path.join(d, "demo", os.path.dirname(p)), exist_ok=True)
            shutil.copy(src, os.path.join(d, "demo", p)); demos.append(p)
base = subprocess.check_output(["git", "-C", wt, "rev-parse", "--short", "HEAD"], text=True).strip()
meta = {
    "breaks_property": prop,
    "base_commit_of_repo": base,
    "needs_to_manifest": needs,
    "demo_files": demos,
    "demo_cmd": demo_cmd.replace(wt, "<worktree>"),
    "what_i_ran": [
        "tools/verify_mutant.sh <worktree> '<demo cmd>': existing suite with the change (demo aside) passed=293 failed=0; demo exits non-zero with the change and 0 with the change reverted",
        "tools/try_mutant.sh seeded/%s/patch.diff <checks>: applies the patch to /repo, runs the quick checks, reverts" % name,
    ],
    "caught_by": caught,
    "notes": notes,
}
json.dump(meta, open(os.path.join(d, "meta.json"), "w"), indent=1)
print("kept", d, demos)

#!/bin/sh
# tools/proc_mutant.sh <worktree> "<demo cmd>" <Cxx>... : verify a seeded change independently, then
# run the given quick checks against it (through /repo, reverted afterwards).
W="$1"; DEMO="$2"; shift 2
ROOT="$(cd "$(dirname "$0")/.." && pwd)"
( cd "$W" && git diff --stat | tail -3 )
"$ROOT/tools/verify_mutant.sh" "$W" "$DEMO"
"$ROOT/tools/try_mutant.sh" "$W/MUTANT.diff" "$@"

#!/bin/sh
# tools/try_mutant.sh <patch.diff> <Cxx> [Cxx...]
# Applies a seeded change to /repo, runs the given quick checks, and reverts /repo again.
# Prints one line per check: "<id> exit=<code>" (1 = the check catches the change).
set -u
PATCH="$1"; shift
ROOT="$(cd "$(dirname "$0")/.." && pwd)"
if [ -n "$(git -C /repo status --porcelain)" ]; then echo "/repo is not clean" >&2; exit 2; fi
git -C /repo apply "$PATCH" || { echo "patch does not apply" >&2; exit 2; }
for id in "$@"; do
  out=$(cd "$ROOT" && VERIF_SEED="${VERIF_SEED:-20260925}" timeout "${MUT_TIMEOUT:-900}" ./run.sh "$id" "${MUT_TIER:-quick}" 2>&1)
  code=$?
  echo "$out" | grep -E "^violation|^VIOLATION" | head -3 | cut -c1-400
  echo "$id exit=$code"
done
git -C /repo checkout -- .
# rebuild against the clean tree so that later runs are not served a stale binary
(cd "$ROOT/engine" && cargo build --release --offline -q -p gtv 2>/dev/null)

#!/usr/bin/env python3
"""Regenerates /verif/MANIFEST.json from the table below (kept in one place so the manifest stays valid)."""
import json, os, subprocess

ROOT = os.path.dirname(os.path.dirname(os.path.abspath(__file__)))

# id -> (technique, level category, level text, level note, design ref)
CHECKS = {
    "C01": (
        "property-based testing: generated grammars x inputs; oracle = Earley recogniser + tree validity + table certificate; thorough tier adds a coverage-guided libFuzzer stage over the same decoder and oracle (artifacts re-judged by the engine)",
        "exploration",
        "Random and bounded-exhaustive inputs over generated grammars (all strata); every accepted tree validated against the abstract grammar, language equality against an Earley recogniser when no conflicts are reported.",
        "Trusted: own Earley recogniser (self-tested), abstract-grammar renderer, proptest, rustc. Grammars with precedence declarations excluded from the language-equality clause; grammars whose table can reduce forever without consuming input are outside the parse domain (finding C07-nonconsuming-reduce-loop).",
        "DESIGN.md section 5, C01",
    ),
    "C02": (
        "property-based testing: differential against an own canonical LR(1) construction and driver; thorough tier adds a coverage-guided libFuzzer stage over the same decoder and oracle (artifacts re-judged by the engine)",
        "exploration",
        "Generated LR(1) grammars (70% from LR(1)-not-LALR(1) families): no conflicts, never more states than canonical LR(1), same tree / same error index as a canonical LR(1) parser on every generated input.",
        "Trusted: own canonical LR(1) item-set construction and 20-line LR driver.",
        "DESIGN.md section 5, C02",
    ),
    "C03": (
        "property-based testing: every table cell re-derived from the closed item sets and the abstract grammar's precedence model; conflict lists as multisets; %expect through the compile-time builder",
        "exploration",
        "Generated ambiguous expression grammars with random precedence declarations: all cells of all states compared with Yacc's resolution rules, conflict reports compared exactly, compile-time build must fail iff counts differ from %expect/%expect-rr.",
        "Trusted: own precedence model read from the abstract grammar. Cells offering a shift and >=2 reductions only have to hold one of the candidates.",
        "DESIGN.md section 5, C03",
    ),
    "C04": (
        "property-based testing: first error position against Earley's first non-viable prefix; thorough tier adds a coverage-guided libFuzzer stage over the same decoder and oracle (artifacts re-judged by the engine)",
        "exploration",
        "Conflict-free generated grammars x non-sentences: exactly one error at the first lexeme that cannot continue a sentence (recovery off), same first error with recovery on.",
        "Trusted: own Earley recogniser as viable-prefix oracle; recovery run under the cfg(grmtools_verif) hooks (budget override, expansion cap).",
        "DESIGN.md section 5, C04",
    ),
    "C05": (
        "property-based testing: reference LR driver over the public action/goto API replays every reported repair sequence at the error point and follows the first one; tree and later errors compared; thorough tier adds a coverage-guided libFuzzer stage over the same decoder and oracle (artifacts re-judged by the engine)",
        "exploration",
        "Generated grammars (with and without conflicts) x erroneous inputs x token-cost functions: every reported sequence must apply and repair under replay semantics; continuation (later errors, final tree with zero-length faulty leaves for inserts) must equal the driver's.",
        "Trusted: 60-line reference driver and replay semantics (recov.rs). Recovery runs under the cfg(grmtools_verif) hooks (budget override, expansion cap 1500; capped runs are not judged). Tables that can reduce forever without consuming input are excluded (open finding C07-nonconsuming-reduce-loop).",
        "DESIGN.md section 5, C05",
    ),
    "C06": (
        "property-based testing: exhaustive uniform-cost enumeration of all minimum-cost repairs under replay semantics as reference model; set equality + ordering clauses; thorough tier adds a coverage-guided libFuzzer stage over the same decoder and oracle (artifacts re-judged by the engine)",
        "exploration",
        "Same domain as C05 with shorter inputs: the reported list must equal the complete set of minimum-cost, maximally-ranked repairs found by an exhaustive reference search (node budget 60000), with the documented ordering.",
        "Trusted: reference enumeration in recov.rs. Order among sequences of equal group and length not compared. Errors whose reference search exceeds its budget are not judged (counted).",
        "DESIGN.md section 5, C06",
    ),
    "C07": (
        "property-based testing: invariants over (value, errors) for long multi-error inputs; watchdog + address-space limit for termination; thorough tier adds a coverage-guided libFuzzer stage over the same decoder and oracle (artifacts re-judged by the engine)",
        "exploration",
        "Generated cycle-free grammars x inputs with up to 6 error sites x cost functions (1..255): strictly increasing error positions at least 3 lexemes apart, only the last error unrepaired, value iff all repaired, clean value equals recovery-off parse.",
        "Termination observed through a 20 s watchdog (re-confirmed 200 s) and a 3 GB address-space limit in the killable worker. One open finding (non-consuming reduce loop) is excluded by a table-level witness search and demonstrated by a stored replay.",
        "DESIGN.md section 5, C07",
    ),
    "C08": (
        "property-based testing: parse_actions with recording closures; log must be the post-order of the returned tree; spans recomputed from leaves; differential against parse_map; thorough tier adds a coverage-guided libFuzzer stage over the same decoder and oracle (artifacts re-judged by the engine)",
        "exploration",
        "Generated grammars rich in empty productions x inputs with gapped spans, recovery off and on: one action call per reduction in bottom-up left-to-right order, arguments/parameter/span exact, same tree as the generic parse-tree mode.",
        "Trusted: the recording harness. Position of a zero-length span not asserted; comparison with parse_map under recovery only when no error has more than one repair sequence.",
        "DESIGN.md section 5, C08",
    ),
    "C09": (
        "property-based testing: differential against a naive reference lexer (position loop, Vec state stack, regex crate compiled from the abstract syntax); thorough tier adds a coverage-guided libFuzzer stage over the same decoder and oracle (artifacts re-judged by the engine)",
        "exploration",
        "Generated lex specifications (overlapping rules, inclusive/exclusive start states, push/pop/replace, regex flags) x inputs incl. multi-byte text, through from_str and through Rule::new/from_rules: same lexemes, same single error position, tiling, exact missing-name sets from set_rule_ids.",
        "Trusted: the regex crate as matching oracle, the naive lexer, the abstract-spec renderer. set_rule_ids order as used by all callers (the doc comment's order is stale).",
        "DESIGN.md section 5, C09",
    ),
    "C10": (
        "property-based testing: print-then-parse round trip of abstract grammars over varied renderings (layout, comments, quoting, declaration order, split rules, yacc kinds, entry points); well-formedness of every accessor; spans against the renderer's layout map; thorough tier adds a coverage-guided libFuzzer stage over the same decoder and oracle (artifacts re-judged by the engine)",
        "exploration",
        "Every generated rendering must parse to exactly the abstract grammar (rules in order of first definition, productions in source order, symbols, %prec, precedence levels, %epp, %avoid_insert, %expect, actions, action types, added start rule / Eco implicit rule, one unnamed end-of-input token), with dense numbering, in-range indices, non-panicking accessors and spans that slice the source to the defining text.",
        "Trusted: the renderer and its layout map. Token numbering only required to be a bijection; prod_span end tolerated up to the action brace; action_span only checked to lie between the braces.",
        "DESIGN.md section 5, C10",
    ),
    "C11": (
        "property-based testing: print-then-parse round trip of abstract lexer specifications over varied renderings and flag placements; behavioural regex comparison; span checks against the renderer's layout map; mutated invalid specifications; thorough tier adds a coverage-guided libFuzzer stage over the same decoder and oracle (artifacts re-judged by the engine)",
        "exploration",
        "Rules/order/names/start states/targets and every span compared with the abstract specification and the byte layout recorded while rendering; regex denotation compared by lexing sample strings with one-rule projections; flags in the %grmtools section vs new_with_options; error spans of invalid variants.",
        "Trusted: renderer + layout map, regex crate. re_str() text itself not compared.",
        "DESIGN.md section 5, C11",
    ),
    "C12": (
        "property-based testing / mutation fuzzing of specifications (corpus from the repository + own generated renderings) through every parser entry point; watchdog for termination; libFuzzer target fz_specs shares the oracle (thorough tier)",
        "exploration",
        "Mutated near-valid .y/.l/%grmtools texts through ASTWithValidityInfo::new/from_str, YaccGrammar::new/from_str, warnings(), LRNonStreamingLexerDef::from_str/new_with_options (default and generated non-default flag sets), GrmtoolsSectionParser::parse: returns promptly, never panics, Ok or non-empty Err, validity flag consistent, every error/warning span inside the text on char boundaries, span count consistent with the error's kind, every error and warning rendered by the builders' diagnostics formatter without panicking.",
        "Termination = answer within 5 s (re-confirmed 50 s in a fresh process) for inputs <= 8 KB. Corpus in corpus/specs (tools/mkcorpus.py).",
        "DESIGN.md section 5, C12",
    ),
    "C13": (
        "translation validation by differential testing: generated (grammar, lexer, settings) pairs are compiled by the real compile-time builders inside one cargo build, the resulting binary compares the generated modules with the run-time pipeline on generated inputs",
        "translation_validation",
        "Per generated program (pair): same lexemes, same value/tree, same errors with the same repair sets, same token_epp and R_*/N_* constants; user actions ($1..$n as Ok/Err, $span, $lexer, $$; kinds Grmtools and Original(UserAction); %parse-param by value, as a shared log, behind %parse-generics; unit-typed rules) validated against a native evaluation of the same action template; settings (yacckind, recoverer, serialisation format, edition, visibility, lexer flags via builder or header) sampled.",
        "Trusted: the batch crate's glue (engine/ctbatch), rustc. With several equally ranked repairs only results up to the first error are compared. Storage types u32/u16/u8 sampled. Besides the pairs, lexer-only items from the C09/C11 lexer generators are built by CTLexerBuilder with a user-supplied rule_ids_map and compared (definition and lexemes) with the run-time definition.",
        "DESIGN.md section 5, C13",
    ),
    "C14": (
        "property-based testing: serialise/reconstitute round trip compared through a digest of every public query plus parse results; thorough tier adds a coverage-guided libFuzzer stage over the same decoder and oracle (artifacts re-judged by the engine)",
        "exploration",
        "Generated grammars (all kinds and optional declarations) x {fixed, variable} wincode encodings x {u8,u16,u32}: digest(original) == digest(_reconstitute(serialised)) for grammar and table (conflict lists in order), equal parse results on generated inputs.",
        "Trusted: the digest printer (digest.rs) enumerates the public accessors; serialisation called exactly as ctbuilder does.",
        "DESIGN.md section 5, C14",
    ),
    "C15": (
        "property-based testing: repeated in-process builds, fresh-process builds and separate compile-time build processes compared through digests / generated file bytes",
        "exploration",
        "Generated grammars incl. Eco implicit tokens: 5 in-process builds (fresh hash seeds) give equal digests; sampled cases are also digested in 3 fresh processes and built by the compile-time builders in 3 separate processes with byte-identical generated modules (timestamp masked).",
        "Conflict list order and core_reduces representative not compared. Thread interleavings of a generated parser's first use are only stress-tested in C13's batch binary (the harness does not own the scheduler).",
        "DESIGN.md section 5, C15",
    ),
    "C16": (
        "property-based testing: cross-checking every public state-graph / state-table query per state, token and rule; closed states against a reference LR(1) closure; thorough tier adds a coverage-guided libFuzzer stage over the same decoder and oracle (artifacts re-judged by the engine)",
        "exploration",
        "Generated grammars with and without precedence-resolved and %nonassoc-removed entries: all states x tokens x rules.",
        "Trusted: own LR(1) closure with own FIRST/nullable.",
        "DESIGN.md section 5, C16",
    ),
    "C17": (
        "property-based testing: grammar analyses against independently written fixed-point / relaxation analyses and Earley derivability; watchdog for termination; thorough tier adds a coverage-guided libFuzzer stage over the same decoder and oracle (artifacts re-judged by the engine)",
        "exploration",
        "Generated grammars with nullable symbols anywhere, unit cycles, unproductive and unreachable rules x cost functions: FIRST, FOLLOW, epsilon, has_path, min/max costs, minimal sentences.",
        "Trusted: refimpl::analyses and Earley. Exact on reduced grammars, bracketed by the two readings of the definitions otherwise. Termination = answer within a watchdog re-confirmed 10x in a fresh process.",
        "DESIGN.md section 5, C17",
    ),
    "C18": (
        "stateful property-based testing: generated build histories interpreted against the real compile-time builders (one process per build, logical file times), invariant checked after every build against a clean build",
        "exploration",
        "Histories over {edit grammar, edit lexer, touch, change one of 18 builder options (incl. every visibility variant, the storage type u32/u16/u8, strictness about missing tokens, the one-call lrpar_config flow, grammar_path switched between directories or through a symbolic link), edit the grammar at exactly the generated module's file time, break grammar (4 ways), break lexer, build}: after every build the generated modules equal a clean build's, regenerated() is false iff nothing changed, true after a grammar/option change, and a failed build leaves no generated file behind.",
        "Trusted: the ctstep child process harness and the logical clock (filetime). A Touch may or may not regenerate. Two open findings are tolerated exactly (one-call flow with an invalid lexer leaves the parser module; test_files not parsed again when the parser module is served from the cache).",
        "DESIGN.md section 5, C18",
    ),
    "C19": (
        "property-based testing (proptest choice streams, shrinking) against a naive line/column reference model; thorough tier adds a coverage-guided libFuzzer stage over the same decoder and oracle (artifacts re-judged by the engine)",
        "exploration",
        "Generated texts x chunkings; every char-boundary offset and every span of each text is queried through NewlineCache, the lexer (line_col, span_lines_str), LexParseError::pp and the builders' SpannedDiagnosticFormatter (location, numbered rows, underline start column and width) and compared with a naive scan; texts of 10+ and 100+ lines included; exhaustive over offsets/spans per text, random over texts.",
        "Trusted: the naive reference (count of LF / chars since line start), proptest, rustc. Both readings of 'span ends at a line start' accepted.",
        "DESIGN.md section 5, C19",
    ),
    "C20": (
        "property-based testing + boundary enumeration: every grammar built with u8, u16 and u32 and compared through digests; panics classified as clean refusals or violations",
        "exploration",
        "Size-boundary families (rules, tokens, productions, symbols per production, LR states, lexer rules) around 255 and 65535, ordinary grammars of every kind with one or two dimensions inflated to 246..261, plus ordinary grammars: each width either completes with sizes equal to the u32 build and equal digests / parse results, or is refused with the documented 'StorageT is not big enough' panic (a bare assertion failure is a violation); wider widths accept whatever a narrower one accepts.",
        "State numbers are compared literally (after fix 4e41918; first up to the canonical breadth-first renumbering for a precise signature); reduce/reduce entries as (token, loser, state). Full digest only below 40 KB of grammar text.",
        "DESIGN.md section 5, C20",
    ),
}

NOT_YET = {
}


def main():
    props = [json.loads(l) for l in open(os.path.join(ROOT, "properties.jsonl"))]
    ids = [p["id"] for p in props]
    checks = []
    na = []
    for pid in ids:
        if pid in CHECKS:
            tech, cat, text, note, ref = CHECKS[pid]
            checks.append({
                "property_id": pid,
                "quick_cmd": f"./run.sh {pid} quick",
                "thorough_cmd": f"./run.sh {pid} thorough",
                "evidence_file": f"evidence/{pid}.json",
                "replay_cmd_template": "./run.sh replay {path}",
                "engine": "gtv",
                "level_claimed": {"category": cat, "text": text, "design_ref": ref},
                "level_note": note,
                "technique": tech,
            })
        else:
            na.append({"property_id": pid, "reason": NOT_YET.get(pid, "check not built yet in this revision of /verif (planned: DESIGN.md section 5); nothing is claimed for it")})
    try:
        hook_commits = subprocess.check_output(
            ["git", "-C", "/repo", "log", "--format=%H %s", "--grep=^verif-hook:"], text=True
        ).strip().splitlines()
    except Exception:
        hook_commits = []
    m = {
        "version": 1,
        "setup_cmd": "./setup.sh",
        "hooks": {
            "guard": "grmtools_verif",
            "enable": "RUSTFLAGS='--cfg grmtools_verif' (set by engine/.cargo/config.toml [build] rustflags for every build of the engine, which path-depends on /repo's crates)",
            "baseline_off_cmd": "cd /repo && cargo test --workspace --no-fail-fast --offline",
            "source_commits": [l.split()[0] for l in hook_commits],
            "add_only": True,
        },
        "engines": [{
            "name": "gtv",
            "path": "engine/gtv",
            "serves_properties": sorted(CHECKS.keys()),
            "kind_free_text": "Rust binary: proptest TestRunner lanes (16) generating choice streams decoded into JSON cases, killable worker processes evaluating each case against an explicit oracle, shrinking to a replay file; cargo-fuzz targets share the decoders and oracles",
        }],
        "checks": checks,
        "notes": "Family: property-based testing and fuzzing. Exit 0 held / 1 VIOLATION / 2 no verdict (build, harness, generator-health, unconfirmed watchdog). known_findings.json lists open and fixed findings.",
        "not_applicable": na,
    }
    with open(os.path.join(ROOT, "MANIFEST.json"), "w") as f:
        json.dump(m, f, indent=1)
        f.write("\n")


if __name__ == "__main__":
    main()

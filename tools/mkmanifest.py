#!/usr/bin/env python3
"""Regenerates /verif/MANIFEST.json from the table below (kept in one place so the manifest stays valid)."""
import json, os, subprocess

ROOT = os.path.dirname(os.path.dirname(os.path.abspath(__file__)))

# id -> (technique, level category, level text, level note, design ref)
CHECKS = {
    "C19": (
        "property-based testing (proptest choice streams, shrinking) against a naive line/column reference model",
        "exploration",
        "Generated texts x chunkings; every char-boundary offset and every span of each text is compared with a naive scan; exhaustive over offsets/spans per text, random over texts.",
        "Trusted: the naive reference (count of LF / chars since line start), proptest, rustc. Both readings of 'span ends at a line start' accepted.",
        "DESIGN.md section 5, C19",
    ),
}

NOT_YET = {
}


def main():
    props = [json.loads(l) for l in open(os.path.join(ROOT, "properties.jsonl"))]
    ids = [p["id"] for p in props]
    checks = []
    na = []
    for pid in ids:
        if pid in CHECKS:
            tech, cat, text, note, ref = CHECKS[pid]
            checks.append({
                "property_id": pid,
                "quick_cmd": f"./run.sh {pid} quick",
                "thorough_cmd": f"./run.sh {pid} thorough",
                "evidence_file": f"evidence/{pid}.json",
                "replay_cmd_template": "./run.sh replay {path}",
                "engine": "gtv",
                "level_claimed": {"category": cat, "text": text, "design_ref": ref},
                "level_note": note,
                "technique": tech,
            })
        else:
            na.append({"property_id": pid, "reason": NOT_YET.get(pid, "check not built yet in this revision of /verif (planned: DESIGN.md section 5); nothing is claimed for it")})
    try:
        hook_commits = subprocess.check_output(
            ["git", "-C", "/repo", "log", "--format=%H %s", "--grep=^verif-hook:"], text=True
        ).strip().splitlines()
    except Exception:
        hook_commits = []
    m = {
        "version": 1,
        "setup_cmd": "./setup.sh",
        "hooks": {
            "guard": "grmtools_verif",
            "enable": "RUSTFLAGS='--cfg grmtools_verif' (set by engine/.cargo/config.toml [build] rustflags for every build of the engine, which path-depends on /repo's crates)",
            "baseline_off_cmd": "cd /repo && cargo test --workspace --no-fail-fast --offline",
            "source_commits": [l.split()[0] for l in hook_commits],
            "add_only": True,
        },
        "engines": [{
            "name": "gtv",
            "path": "engine/gtv",
            "serves_properties": sorted(CHECKS.keys()),
            "kind_free_text": "Rust binary: proptest TestRunner lanes (16) generating choice streams decoded into JSON cases, killable worker processes evaluating each case against an explicit oracle, shrinking to a replay file; cargo-fuzz targets share the decoders and oracles",
        }],
        "checks": checks,
        "notes": "Family: property-based testing and fuzzing. Exit 0 held / 1 VIOLATION / 2 no verdict (build, harness, generator-health, unconfirmed watchdog). known_findings.json lists open and fixed findings.",
        "not_applicable": na,
    }
    with open(os.path.join(ROOT, "MANIFEST.json"), "w") as f:
        json.dump(m, f, indent=1)
        f.write("\n")


if __name__ == "__main__":
    main()

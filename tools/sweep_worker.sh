#!/bin/sh
# tools/sweep_worker.sh <k> <patchdir> <id>... : for each operator mutant: the checks named in the
# index, one after the other, in a scratch laboratory of its own (stops at the first that reports a
# violation); a mutant no check catches is then run against the repository's own test suite in a
# scratch worktree. One result line per mutant in work/sweep/results_<k>.tsv.
K="$1"; PD="$2"; shift 2
ROOT="$(cd "$(dirname "$0")/.." && pwd)"
mkdir -p "$ROOT/work/sweep"
RES="$ROOT/work/sweep/results_$K.tsv"
W=/tmp/sweep/w$K
for id in "$@"; do
  patch="$PD/$id.diff"
  line=$(grep "^$id	" "$PD/index.tsv")
  checks=$(echo "$line" | cut -f5)
  verdict=""
  for c in $checks; do
    out=$(MUTLAB_DIR=/tmp/mutlab_s$K MUT_TIMEOUT=1200 "$ROOT/tools/mutlab.sh" try "$patch" "$c" 2>&1)
    code=$(echo "$out" | grep -o "$c exit=[0-9]*" | tail -1 | sed 's/.*=//')
    if [ "$code" = 1 ]; then verdict="caught:$c"; break; fi
    if [ "$code" != 0 ]; then verdict="inconclusive:$c:$(echo "$out" | grep -E "error(\[|:)" | head -1 | cut -c1-80)"; break; fi
  done
  if [ -z "$verdict" ]; then
    if [ ! -d "$W" ]; then git -C /repo worktree add -q --detach "$W" HEAD; fi
    ( cd "$W" && git checkout -q -- . && git apply "$patch" && sleep 1.1 && git diff --name-only | xargs -r touch )
    suite=$(cd "$W" && cargo test --workspace --no-fail-fast --offline -j 6 2>&1 | awk '/^test result/ {p+=$4; f+=$6} /error(\[|:)/ {e=1} END {print "passed=" p " failed=" f " err=" e}')
    ( cd "$W" && git checkout -q -- . && sleep 1.1 && git diff --name-only | xargs -r touch )
    case "$suite" in
      "passed=293 failed=0"*) verdict="SURVIVOR ($suite)";;
      *) verdict="suite-only ($suite)";;
    esac
  fi
  printf "%s\t%s\t%s\n" "$id" "$verdict" "$(echo "$line" | cut -f2-4,6)" >> "$RES"
done
echo "worker $K done"

#!/bin/sh
# tools/proc_mutant_lab.sh <worktree> "<demo cmd>" <Cxx>... : like proc_mutant.sh, but the checks run
# in the scratch copy kept by tools/mutlab.sh (committed /verif, scratch worktree of /repo).
W="$1"; DEMO="$2"; shift 2
ROOT="$(cd "$(dirname "$0")/.." && pwd)"
( cd "$W" && git diff --stat | tail -3 )
"$ROOT/tools/verify_mutant.sh" "$W" "$DEMO"
"$ROOT/tools/mutlab.sh" try "$W/MUTANT.diff" "$@"

#!/bin/sh
# tools/thorough_all.sh [ids...] : runs the thorough tier of the given (default: all) checks one
# after the other; one log per check in work/thorough/, one summary line each on stdout.
cd "$(dirname "$0")/.." || exit 2
IDS="$*"
[ -z "$IDS" ] && IDS="C01 C02 C03 C04 C05 C06 C07 C08 C09 C10 C11 C12 C13 C14 C15 C16 C17 C18 C19 C20"
mkdir -p work/thorough
for id in $IDS; do
  ./run.sh "$id" thorough > "work/thorough/$id.log" 2>&1
  code=$?
  echo "$id exit=$code $(tail -1 work/thorough/$id.log | cut -c1-220)"
done

#!/usr/bin/env python3
"""Sanity: every commit named in known_findings.json exists in /repo and is a 'fix:' commit; every replay file exists."""
import json, subprocess, os, sys
root = os.path.dirname(os.path.dirname(os.path.abspath(__file__)))
k = json.load(open(os.path.join(root, "known_findings.json")))
bad = 0
for f in k["findings"]:
    if f.get("commit"):
        r = subprocess.run(["git", "-C", "/repo", "log", "-1", "--format=%s", f["commit"]], capture_output=True, text=True)
        if r.returncode != 0 or not r.stdout.startswith("fix:"):
            print("BAD commit", f["id"], f["commit"], r.stdout.strip()); bad += 1
    if f.get("replay") and not os.path.exists(os.path.join(root, f["replay"])):
        print("MISSING replay", f["id"], f["replay"]); bad += 1
    if f["status"] == "fixed" and not f.get("line", "").startswith("fixed: property=" + f["property"]):
        print("BAD line", f["id"]); bad += 1
print("findings:", len(k["findings"]), "problems:", bad)
sys.exit(1 if bad else 0)

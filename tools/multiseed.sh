#!/bin/sh
# Runs every claimed check's quick tier under several seeds; prints one line per (check, seed).
# Usage: tools/multiseed.sh [seeds...]      (default: 1 2 3 4 5)
ROOT="$(cd "$(dirname "$0")/.." && pwd)"
cd "$ROOT" || exit 2
SEEDS="${*:-1 2 3 4 5}"
IDS=$(python3 -c "import json;print(' '.join(c['property_id'] for c in json.load(open('MANIFEST.json'))['checks']))")
bad=0
for s in $SEEDS; do
  for id in $IDS; do
    out=$(VERIF_SEED=$s ./run.sh "$id" quick 2>/dev/null | grep -v '^KNOWN-FINDING' | tail -1)
    code=$(echo "$out" | sed -n 's/.*exit=\([0-9]*\)$/\1/p')
    echo "seed=$s $out"
    [ "$code" = "0" ] || bad=$((bad+1))
  done
done
echo "non-zero exits: $bad"
[ "$bad" = "0" ]

#!/usr/bin/env python3
"""mkwave_files.py <suffix> : file-directed round. One scratch worktree /tmp/mut/F<k><suffix> per
entry of FILES; the sub-agent gets the text of ALL properties and is asked for a change inside the
given file(s) that breaks any one of them. Prints the worktrees; prompts go to work/wave/."""
import json, os, subprocess, sys
root = os.path.dirname(os.path.dirname(os.path.abspath(__file__)))
suffix = sys.argv[1]
FILES = [
    ("lrlex/src/lib/ctbuilder.rs (anything except the lex_flags setup and the rule list of the generated lexerdef(), which earlier rounds used: e.g. CTTokenMapBuilder, the start-state list and targets written into the generated module, module names and paths, rule_ids_map handling, missing-token checks)", "I01"),
    ("lrpar/src/lib/ctbuilder.rs (paths and names: grammar_in_src_dir / process_file, the derived module name, output_file and how the generated text is assembled, serialisation of grammar and table into the module, gen_rule_consts and gen_token_epp)", "I02"),
    ("cfgrammar/src/lib/yacc/parser.rs (white space and comments: parse_ws and its callers; %token / %left / %right / %nonassoc / %start / %expect lines; parse_token, parse_name, parse_int)", "I03"),
    ("lrpar/src/lib/parser.rs (the public API side: RTParserBuilder and its methods, ParseError / ParseRepair / LexParseError and their pp, Node, action_generictree / parse_generictree / parse_map / parse_actions entry points - not the lr / lr_upto loops' span bookkeeping)", "I05"),
    ("lrlex/src/lib/lexer.rs (LRNonStreamingLexer: span_str, span_lines_str, line_col, iter; DefaultLexeme in lrlex/src/lib/defaults.rs; the error branch of the lexing loop)", "I06"),
    ("cfgrammar/src/lib/yacc/grammar.rs (accessor methods and lookups: token_precs / token_prec, prod_precedence, rule_name_str / rule_idx / token_idx / token_name, tokens_map, iter_*; firsts()/follows() plumbing) and cfgrammar/src/lib/yacc/firsts.rs / follows.rs accessors", "I07"),
    ("lrtable/src/lib/statetable.rs (the second pass of StateTable::new that fills core_reduces, state_shifts, reduce_states and final_state; the accessor methods state_actions, state_shifts, core_reduces, reduce_only_state, goto, start_state; encode/decode)", "I08"),
]
if os.path.exists('/tmp/files.json'):
    FILES = [tuple(x) for x in json.load(open('/tmp/files.json'))]
props = [json.loads(l) for l in open(os.path.join(root, 'properties.jsonl'))]
taken = []
for n in sorted(os.listdir(os.path.join(root, 'seeded'))):
    m = os.path.join(root, 'seeded', n, 'meta.json')
    if not os.path.exists(m): continue
    files = sorted({l[6:].strip() for l in open(os.path.join(root, 'seeded', n, 'patch.diff')) if l.startswith('+++ b/')})
    taken.append((files[0] if files else '?', n.split('-', 1)[1]))
global_list = '\n'.join(f'  - {f}: {n}' for f, n in sorted(taken))
plist = '\n'.join(f'  [{p["id"]}] "{p["title"]}": {p["statement"]}' for p in props)
os.makedirs(os.path.join(root, 'work', 'wave'), exist_ok=True)
for files, tag in FILES:
    name = f'{tag}{suffix}'
    wt = f'/tmp/mut/{name}'
    if not os.path.isdir(wt):
        os.makedirs('/tmp/mut', exist_ok=True)
        subprocess.check_call(['git', '-C', '/repo', 'worktree', 'add', '-q', '--detach', wt, 'HEAD'])
    prompt = f"""You are helping to evaluate a test suite's blind spots for the Rust project softdevteam/grmtools (a Yacc/Lex-compatible parser generator suite: crates cfgrammar, lrtable, lrpar, lrlex, nimbleparse). You have your own scratch git worktree of the project at {wt} (detached HEAD). Work ONLY inside that directory; never touch /repo or /verif, never use `git stash` (the stash list is shared between worktrees), never commit. The machine is offline: always pass --offline to cargo (e.g. `cargo test --offline -p lrtable`), and please use `-j 4` for cargo builds and tests because other jobs share the machine.

Here are twenty semantic properties that users of grmtools rely on:

{plist}

Your task: make ONE small, realistic change inside this part of the library:

    {files}

(the kind of slip a maintainer could make in a refactoring or an optimisation: a wrong index, a dropped update, a condition that is slightly too narrow or too wide, two sites that must agree but no longer do, an off-by-one at a boundary, ...) that BREAKS ONE of the properties above - say which - while
  (a) the whole workspace still compiles,
  (b) the existing test suite still passes completely: `cd {wt} && cargo test --workspace --no-fail-fast --offline -j 4` (293 tests, all must pass; check this yourself with the change in place), and
  (c) the breakage needs something specific to manifest - an unusual but legitimate input shape, a particular combination of features or settings, a multi-step sequence of operations, two cooperating sites that each look fine alone - rather than something ordinary use would expose at once. Prefer a change that yields a WRONG RESULT over one that yields a panic. Do not add cfg flags, feature gates, environment variable checks, magic constants keyed to one input, or anything else a reviewer would see as deliberate sabotage; it must read like an honest mistake.

Changes that earlier experiments already used (file: short name) - do not deliver one of these again, nor the same edit under another name:
{global_list}

Deliverables, all inside {wt}:
  1. The source change itself, left applied in the working tree, and additionally saved as a patch: `cd {wt} && git diff > MUTANT.diff` (MUTANT.diff must contain only the library change, not the demonstration; `git diff` ignores untracked files, which is what we want).
  2. A demonstration that uses only the public API: a new integration test file (for example {wt}/<crate>/tests/<name>.rs; new untracked file, do not edit existing tests) or a small example program, which FAILS (non-zero exit) with your change and PASSES with the change reverted (`git apply -R MUTANT.diff`, run, then `git apply MUTANT.diff` again). Verify both directions yourself.
  3. In your final answer report: which property ([Cxx]) is broken, the exact demo command (e.g. `cargo test --offline -p lrpar --test my_demo`), which function you changed and why it breaks the property, and precisely what an input/sequence needs in order to make the breakage visible (be specific: this description is used to judge how hard the change is to detect).

If after a serious attempt you cannot find a change in the given file(s) that satisfies (a)-(c), say so plainly rather than delivering something that fails the existing tests."""
    open(os.path.join(root, 'work', 'wave', f'{name}.txt'), 'w').write(prompt)
    print(wt)

#!/usr/bin/env python3
"""mkwave_files.py <suffix> : file-directed round. One scratch worktree /tmp/mut/F<k><suffix> per
entry of FILES; the sub-agent gets the text of ALL properties and is asked for a change inside the
given file(s) that breaks any one of them. Prints the worktrees; prompts go to work/wave/."""
import json, os, subprocess, sys
root = os.path.dirname(os.path.dirname(os.path.abspath(__file__)))
suffix = sys.argv[1]
FILES = [
    ("lrpar/src/lib/ctbuilder.rs (the code generation half: gen_parse_function, gen_rule_consts, gen_token_epp, gen_wrappers, gen_user_actions, user_start_ridx and what they call)", "G01"),
    ("lrpar/src/lib/ctbuilder.rs (the builder half: the setter methods, build, build_to_output_path up to the point where code is generated, header / %grmtools handling, output_file, rebuild_cache)", "G02"),
    ("lrlex/src/lib/parser.rs (regular expressions and escapes: parse_rule's expression part, unescape and its helpers)", "G03"),
    ("lrlex/src/lib/parser.rs (declarations, start states, <..> prefixes and target states, rule names, the %grmtools section of .l files)", "G04"),
    ("lrtable/src/lib/statetable.rs", "G05"),
    ("lrpar/src/lib/parser.rs", "G06"),
    ("lrpar/src/lib/cpctplus.rs and lrpar/src/lib/dijkstra.rs", "G07"),
    ("cfgrammar/src/lib/yacc/grammar.rs (the constructor new_from_ast_with_validity_info: rule / production / token tables, Eco implicit tokens, the start rule, %epp, %avoid_insert, action and type tables - and the accessor methods)", "G08"),
    ("lrtable/src/lib/pager.rs and lrtable/src/lib/itemset.rs", "G09"),
    ("cfgrammar/src/lib/yacc/firsts.rs, cfgrammar/src/lib/idxnewtype.rs and cfgrammar/src/lib/mod.rs", "G10"),
    ("lrlex/src/lib/lexer.rs (Rule::new and the regex builder flags, LRNonStreamingLexerDef::from_rules / set_rule_ids / set_rule_ids_spanned, LRNonStreamingLexer's span and line/column methods - not the lexing loop's push/pop/replace handling)", "G11"),
]
props = [json.loads(l) for l in open(os.path.join(root, 'properties.jsonl'))]
taken = []
for n in sorted(os.listdir(os.path.join(root, 'seeded'))):
    m = os.path.join(root, 'seeded', n, 'meta.json')
    if not os.path.exists(m): continue
    files = sorted({l[6:].strip() for l in open(os.path.join(root, 'seeded', n, 'patch.diff')) if l.startswith('+++ b/')})
    taken.append((files[0] if files else '?', n.split('-', 1)[1]))
global_list = '\n'.join(f'  - {f}: {n}' for f, n in sorted(taken))
plist = '\n'.join(f'  [{p["id"]}] "{p["title"]}": {p["statement"]}' for p in props)
os.makedirs(os.path.join(root, 'work', 'wave'), exist_ok=True)
for files, tag in FILES:
    name = f'{tag}{suffix}'
    wt = f'/tmp/mut/{name}'
    if not os.path.isdir(wt):
        os.makedirs('/tmp/mut', exist_ok=True)
        subprocess.check_call(['git', '-C', '/repo', 'worktree', 'add', '-q', '--detach', wt, 'HEAD'])
    prompt = f"""You are helping to evaluate a test suite's blind spots for the Rust project softdevteam/grmtools (a Yacc/Lex-compatible parser generator suite: crates cfgrammar, lrtable, lrpar, lrlex, nimbleparse). You have your own scratch git worktree of the project at {wt} (detached HEAD). Work ONLY inside that directory; never touch /repo or /verif, never use `git stash` (the stash list is shared between worktrees), never commit. The machine is offline: always pass --offline to cargo (e.g. `cargo test --offline -p lrtable`), and please use `-j 4` for cargo builds and tests because other jobs share the machine.

Here are twenty semantic properties that users of grmtools rely on:

{plist}

Your task: make ONE small, realistic change inside this part of the library:

    {files}

(the kind of slip a maintainer could make in a refactoring or an optimisation: a wrong index, a dropped update, a condition that is slightly too narrow or too wide, two sites that must agree but no longer do, an off-by-one at a boundary, ...) that BREAKS ONE of the properties above - say which - while
  (a) the whole workspace still compiles,
  (b) the existing test suite still passes completely: `cd {wt} && cargo test --workspace --no-fail-fast --offline -j 4` (293 tests, all must pass; check this yourself with the change in place), and
  (c) the breakage needs something specific to manifest - an unusual but legitimate input shape, a particular combination of features or settings, a multi-step sequence of operations, two cooperating sites that each look fine alone - rather than something ordinary use would expose at once. Prefer a change that yields a WRONG RESULT over one that yields a panic. Do not add cfg flags, feature gates, environment variable checks, magic constants keyed to one input, or anything else a reviewer would see as deliberate sabotage; it must read like an honest mistake.

Changes that earlier experiments already used (file: short name) - do not deliver one of these again, nor the same edit under another name:
{global_list}

Deliverables, all inside {wt}:
  1. The source change itself, left applied in the working tree, and additionally saved as a patch: `cd {wt} && git diff > MUTANT.diff` (MUTANT.diff must contain only the library change, not the demonstration; `git diff` ignores untracked files, which is what we want).
  2. A demonstration that uses only the public API: a new integration test file (for example {wt}/<crate>/tests/<name>.rs; new untracked file, do not edit existing tests) or a small example program, which FAILS (non-zero exit) with your change and PASSES with the change reverted (`git apply -R MUTANT.diff`, run, then `git apply MUTANT.diff` again). Verify both directions yourself.
  3. In your final answer report: which property ([Cxx]) is broken, the exact demo command (e.g. `cargo test --offline -p lrpar --test my_demo`), which function you changed and why it breaks the property, and precisely what an input/sequence needs in order to make the breakage visible (be specific: this description is used to judge how hard the change is to detect).

If after a serious attempt you cannot find a change in the given file(s) that satisfies (a)-(c), say so plainly rather than delivering something that fails the existing tests."""
    open(os.path.join(root, 'work', 'wave', f'{name}.txt'), 'w').write(prompt)
    print(wt)

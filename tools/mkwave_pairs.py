#!/usr/bin/env python3
"""mkwave_pairs.py <suffix> : 'two cooperating sites' round. One worktree /tmp/mut/P<k><suffix> per
group of properties; the sub-agent is asked for a change made of TWO edits in different functions
(or files), each harmless alone, that together break one property of the group."""
import json, os, subprocess, sys
root = os.path.dirname(os.path.dirname(os.path.abspath(__file__)))
suffix = sys.argv[1]
GROUPS = [("P01", ["C01", "C02", "C03", "C04"]), ("P02", ["C05", "C06", "C07", "C08"]), ("P03", ["C09", "C11"]), ("P04", ["C10", "C12"]),
          ("P05", ["C13", "C14"]), ("P06", ["C15", "C18"]), ("P07", ["C16", "C17", "C20"]), ("P08", ["C19", "C12"])]
props = {json.loads(l)['id']: json.loads(l) for l in open(os.path.join(root, 'properties.jsonl'))}
taken = []
for n in sorted(os.listdir(os.path.join(root, 'seeded'))):
    m = os.path.join(root, 'seeded', n, 'meta.json')
    if not os.path.exists(m): continue
    files = sorted({l[6:].strip() for l in open(os.path.join(root, 'seeded', n, 'patch.diff')) if l.startswith('+++ b/')})
    taken.append((files[0] if files else '?', n.split('-', 1)[1]))
global_list = '\n'.join(f'  - {f}: {n}' for f, n in sorted(taken))
os.makedirs(os.path.join(root, 'work', 'wave'), exist_ok=True)
for tag, ids in GROUPS:
    name = f'{tag}{suffix}'
    wt = f'/tmp/mut/{name}'
    if not os.path.isdir(wt):
        os.makedirs('/tmp/mut', exist_ok=True)
        subprocess.check_call(['git', '-C', '/repo', 'worktree', 'add', '-q', '--detach', wt, 'HEAD'])
    plist = '\n'.join(f'  [{i}] "{props[i]["title"]}": {props[i]["statement"]}' for i in ids)
    prompt = f"""You are helping to evaluate a test suite's blind spots for the Rust project softdevteam/grmtools (a Yacc/Lex-compatible parser generator suite: crates cfgrammar, lrtable, lrpar, lrlex, nimbleparse). You have your own scratch git worktree of the project at {wt} (detached HEAD). Work ONLY inside that directory; never touch /repo or /verif, never use `git stash` (the stash list is shared between worktrees), never commit. The machine is offline: always pass --offline to cargo (e.g. `cargo test --offline -p lrtable`), and please use `-j 4` for cargo builds and tests because other jobs share the machine.

Here are semantic properties that users of grmtools rely on:

{plist}

Your task: make a change to the library source that consists of TWO small edits in two different functions (preferably in different files or crates) - two sites that must agree with each other and no longer do, or a producer and a consumer of the same value, or a fast path and a slow path, or a writer and a reader of the same data - such that
  - EACH edit alone is harmless: with only edit 1 (or only edit 2) applied, the property still holds and the demonstration below passes;
  - BOTH together BREAK one of the properties above - say which -;
  (a) the whole workspace still compiles,
  (b) the existing test suite still passes completely with both edits: `cd {wt} && cargo test --workspace --no-fail-fast --offline -j 4` (293 tests, all must pass; check this yourself), and
  (c) the breakage needs something specific to manifest - an unusual but legitimate input shape, a particular combination of features or settings, a multi-step sequence of operations - rather than something ordinary use would expose at once. Prefer a WRONG RESULT over a panic. Each edit must read like an honest refactoring or optimisation (for example: one function starts to rely on an invariant that another function, after its own reasonable-looking simplification, no longer establishes). No cfg flags, feature gates, environment variable checks, magic constants keyed to one input, or anything a reviewer would see as deliberate sabotage.

Changes that earlier experiments already used (file: short name) - do not build on one of these mechanisms again:
{global_list}

Deliverables, all inside {wt}:
  1. Both edits left applied in the working tree, and saved as ONE patch: `cd {wt} && git diff > MUTANT.diff` (library changes only; `git diff` ignores untracked files). Also save each edit separately as EDIT1.diff and EDIT2.diff (so that each can be applied alone to a clean tree).
  2. A demonstration that uses only the public API: a new integration test file (for example {wt}/<crate>/tests/<name>.rs; new untracked file, do not edit existing tests) or a small example program, which FAILS (non-zero exit) with both edits and PASSES with the change reverted (`git apply -R MUTANT.diff`), and also passes with only EDIT1 or only EDIT2 applied. Verify all four states yourself and re-apply MUTANT.diff at the end.
  3. In your final answer report: which property ([Cxx]) is broken, the exact demo command (e.g. `cargo test --offline -p lrpar --test my_demo`), the two functions you changed, why each edit is harmless alone and why they break the property together, and precisely what an input/sequence needs in order to make the breakage visible.

If after a serious attempt you cannot find such a pair, deliver a single-edit change that satisfies (a)-(c) in a function no earlier experiment used, and say so; if that is not possible either, say so plainly rather than delivering something that fails the existing tests."""
    open(os.path.join(root, 'work', 'wave', f'{name}.txt'), 'w').write(prompt)
    print(wt)

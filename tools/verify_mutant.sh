#!/bin/sh
# tools/verify_mutant.sh <worktree> "<demo command>" : confirms a seeded change independently:
# suite passes with the change (demo aside), demo fails with it, demo passes without it.
W="$1"; DEMO="$2"
cd "$W" || exit 2
# untracked demo files
DEMOS=$(git status --porcelain | grep '^??' | awk '{print $2}' | grep -v MUTANT.diff)
mkdir -p "$W.aside"
for d in $DEMOS; do mkdir -p "$W.aside/$(dirname $d)"; mv "$d" "$W.aside/$d"; done
SUITE=$(cargo test --workspace --no-fail-fast --offline -j 8 2>&1 | awk '/^test result/ {p+=$4; f+=$6} END {print "passed=" p " failed=" f}')
for d in $DEMOS; do mkdir -p "$(dirname $d)"; rm -rf "$d"; mv "$W.aside/$d" "$d"; done
rm -rf "$W.aside"
sh -c "$DEMO" >/tmp/demo_with.log 2>&1; WITH=$?
git apply -R MUTANT.diff || { echo "cannot revert"; exit 2; }
sh -c "$DEMO" >/tmp/demo_without.log 2>&1; WITHOUT=$?
git apply MUTANT.diff
echo "suite_with_change: $SUITE ; demo_with_change_exit=$WITH ; demo_without_change_exit=$WITHOUT"

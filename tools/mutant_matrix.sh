#!/bin/sh
# tools/mutant_matrix.sh [name...] : every kept seeded change (default: all of seeded/*/) against
# every quick check. Applies the patch to /repo, runs the 20 quick checks, reverts /repo; the
# exit codes go to seeded/<name>/matrix.json ({"C01": 0|1|2, ...}; 1 = the check reports a
# violation). /repo must be clean and nothing else may build from it meanwhile.
cd "$(dirname "$0")/.." || exit 2
ROOT=$(pwd)
NAMES="$*"
[ -z "$NAMES" ] && NAMES=$(ls seeded | grep -v '\.json$')
ALL="C01 C02 C03 C04 C05 C06 C07 C08 C09 C10 C11 C12 C13 C14 C15 C16 C17 C18 C19 C20"
for n in $NAMES; do
  [ -f "seeded/$n/patch.diff" ] || continue
  if [ -n "$(git -C /repo status --porcelain)" ]; then echo "/repo is not clean" >&2; exit 2; fi
  git -C /repo apply "$ROOT/seeded/$n/patch.diff" || { echo "$n: patch does not apply" >&2; continue; }
  out="{"
  sep=""
  for id in $ALL; do
    VERIF_SEED="${VERIF_SEED:-20260925}" timeout 1800 ./run.sh "$id" quick > "work/matrix_$id.log" 2>&1
    code=$?
    out="$out$sep\"$id\": $code"
    sep=", "
  done
  out="$out}"
  git -C /repo checkout -- .
  echo "$out" > "seeded/$n/matrix.json"
  echo "$n $out"
done
(cd engine && cargo build --release --offline -q -p gtv 2>/dev/null)

#!/usr/bin/env python3
"""mkwave.py <suffix> [Cxx...] : prepares scratch worktrees /tmp/mut/<Cxx><suffix> of /repo's HEAD and
prints, per property, the prompt for an independent sub-agent (property text only, plus the
locations earlier seeded changes already used, so a new one goes elsewhere)."""
import json, os, subprocess, sys
root = os.path.dirname(os.path.dirname(os.path.abspath(__file__)))
suffix = sys.argv[1]
focus = json.load(open('/tmp/focus.json')) if os.path.exists('/tmp/focus.json') else {}
ids = sys.argv[2:]
props = {json.loads(l)['id']: json.loads(l) for l in open(os.path.join(root, 'properties.jsonl'))}
taken = {}
for n in sorted(os.listdir(os.path.join(root, 'seeded'))):
    m = os.path.join(root, 'seeded', n, 'meta.json')
    if not os.path.exists(m): continue
    meta = json.load(open(m))
    files = set()
    for l in open(os.path.join(root, 'seeded', n, 'patch.diff')):
        if l.startswith('+++ b/'): files.add(l[6:].strip())
    taken.setdefault(meta['breaks_property'], []).append((n, sorted(files), meta['needs_to_manifest']))
all_taken = sorted({(f[0] if f else '?', n.split('-',1)[1]) for v in taken.values() for n, f, _ in v})
global_list = '\n'.join(f'  - {f}: {n}' for f, n in all_taken)
os.makedirs(os.path.join(root, 'work', 'wave'), exist_ok=True)
for i in ids or sorted(props):
    wt = f'/tmp/mut/{i}{suffix}'
    if not os.path.isdir(wt):
        os.makedirs('/tmp/mut', exist_ok=True)
        subprocess.check_call(['git', '-C', '/repo', 'worktree', 'add', '-q', '--detach', wt, 'HEAD'])
    p = props[i]
    prev = '\n'.join(f'  - {n.split("-",1)[1]} (in {", ".join(f)}): needs {needs}' for n, f, needs in taken.get(i, []))
    prompt = f"""You are helping to evaluate a test suite's blind spots for the Rust project softdevteam/grmtools (a Yacc/Lex-compatible parser generator suite: crates cfgrammar, lrtable, lrpar, lrlex, nimbleparse). You have your own scratch git worktree of the project at {wt} (detached HEAD). Work ONLY inside that directory; never touch /repo or /verif, never use `git stash` (the stash list is shared between worktrees), never commit. The machine is offline: always pass --offline to cargo (e.g. `cargo test --offline -p lrtable`), and please use `-j 4` for cargo builds and tests because other jobs share the machine.

Here is a semantic property that users of grmtools rely on:

  "{p['title']}": {p['statement']}

Your task: make ONE small, realistic change to the library source (the kind of slip a maintainer could make in a refactoring or an optimisation: a wrong index, a dropped update, a condition that is slightly too narrow or too wide, two sites that must agree but no longer do, a cache key missing a component, ...) that BREAKS this property, while
  (a) the whole workspace still compiles,
  (b) the existing test suite still passes completely: `cd {wt} && cargo test --workspace --no-fail-fast --offline -j 4` (293 tests, all must pass; check this yourself with the change in place), and
  (c) the breakage needs something specific to manifest - an unusual but legitimate input shape, a particular combination of features or settings, a multi-step sequence of operations, two cooperating sites that each look fine alone - rather than something ordinary use would expose at once. Prefer a change that yields a WRONG RESULT over one that yields a panic. Do not add cfg flags, feature gates, environment variable checks, magic constants keyed to one input, or anything else a reviewer would see as deliberate sabotage; it must read like an honest mistake.

Earlier experiments already used the following locations/mechanisms for this property; pick a DIFFERENT function and a DIFFERENT mechanism (ideally a different file or a different clause of the property):
{prev if prev else '  (none)'}

Changes that experiments for OTHER properties already used (file: short name) - do not deliver one of these again, nor the same edit under another name:
{global_list}

{('Suggested area for this round (the clauses of the property no earlier experiment has touched): ' + focus[i] + '.' + chr(10) + chr(10)) if i in focus else ''}Deliverables, all inside {wt}:
  1. The source change itself, left applied in the working tree, and additionally saved as a patch: `cd {wt} && git diff > MUTANT.diff` (MUTANT.diff must contain only the library change, not the demonstration; so create the diff before adding untracked files, or make sure untracked demo files are not in it - `git diff` ignores untracked files, which is what we want).
  2. A demonstration that uses only the public API: a new integration test file (for example {wt}/<crate>/tests/<name>.rs; new untracked file, do not edit existing tests) or a small example program, which FAILS (non-zero exit) with your change and PASSES with the change reverted (`git apply -R MUTANT.diff`, run, then `git apply MUTANT.diff` again). Verify both directions yourself.
  3. In your final answer report: the exact demo command (e.g. `cargo test --offline -p lrpar --test my_demo`), which file/function you changed and why it breaks the property, and precisely what an input/sequence needs in order to make the breakage visible (be specific: this description is used to judge how hard the change is to detect).

If after a serious attempt you cannot find a change that satisfies (a)-(c) for a new location, say so plainly rather than delivering something that fails the existing tests."""
    open(os.path.join(root, 'work', 'wave', f'{i}{suffix}.txt'), 'w').write(prompt)
    print(wt)

#!/usr/bin/env python3
"""save_replay.py <violation.json> <name> [note]  -> replays/<ID>/<name>.json"""
import json, sys, os
v = json.load(open(sys.argv[1]))
root = os.path.dirname(os.path.dirname(os.path.abspath(__file__)))
d = os.path.join(root, "replays", v["property"])
os.makedirs(d, exist_ok=True)
out = {"property": v["property"], "note": sys.argv[3] if len(sys.argv) > 3 else "", "found_signature": v.get("signature"), "found_detail": v.get("detail"), "case": v["case"]}
p = os.path.join(d, sys.argv[2] + ".json")
json.dump(out, open(p, "w"), indent=1)
print(p)

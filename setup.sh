#!/bin/sh
# MANIFEST.setup_cmd: offline build of the engine from files on disk only.
set -eu
ROOT="$(cd "$(dirname "$0")" && pwd)"
export CARGO_NET_OFFLINE=true
unset RUSTFLAGS 2>/dev/null || true
cd "$ROOT/engine"
[ -f Cargo.lock ] || cp /repo/Cargo.lock Cargo.lock
cargo build --release --offline -p gtv
mkdir -p "$ROOT/evidence" "$ROOT/work"
echo "setup ok"

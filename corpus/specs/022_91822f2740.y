%start Expr
%avoid_insert "INT"
%%
Expr -> Result<u64, ()>:
      Expr '+' Term { Ok($1? + $3?) }
    | Term { $1 }
    ;

Term -> Result<u64, ()>:
      Term '*' Factor { Ok($1? * $3?) }
    | Factor { $1 }
    ;

Factor -> Result<u64, ()>:
      '(' Expr ')' { $2 }
    | 'INT'
      {
          let v = $1.map_err(|_| ())?;
          parse_int($lexer.span_str(v.span()))
      }
    ;
%%
// Any functions here are in scope for all the grammar actions above.

fn parse_int(s: &str) -> Result<u64, ()> {
    match s.parse::<u64>() {
        Ok(val) => Ok(val),
        Err(_) => {
            eprintln!("{} cannot be represented as a u64", s);
            Err(())
        }
    }
}

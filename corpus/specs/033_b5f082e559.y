%start A
%expect 1
%expect-rr 1
%%
A : 'a' 'b' | B 'b';
B : 'a' | C;
C : 'a';

%start Expr
%avoid_insert "INT"
%%
Expr -> Vec<::cfgrammar::Span>:
      Expr '+' Term {
          let mut spans = $1;
          spans.extend($3);
          spans.push($span);
          spans
      }
    | Term {
          let mut spans = $1;
          spans.push($span);
          spans
      }
    ;

Term -> Vec<::cfgrammar::Span>:
      Term '*' Factor {
          let mut spans = $1;
          spans.extend($3);
          spans.push($span);
          spans
      }
    | Factor {
          let mut spans = $1;
          spans.push($span);
          spans
      }
    ;

Factor -> Vec<::cfgrammar::Span>:
      '(' Expr ')' {
          let mut spans = $2;
          spans.push($span);
          spans
      }
    | 'INT' { vec![$span] }
    ;

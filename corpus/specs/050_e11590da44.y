%grmtools {
    yacckind: Original(YaccOriginalActionKind::NoAction),
    recoverer: RecoveryKind::None,
    test_files: ["*.input_trailing_ws"],
}
%start Expr
%%
Expr: "trailing";


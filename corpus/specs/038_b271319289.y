%start T
%%
T -> &'input str:
    "ID" { $lexer.span_str($1.unwrap().span()) }
    ;

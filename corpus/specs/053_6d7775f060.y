%start S
%parse-generics 'a, T: Into<u64> + Copy, R: From<u64>
%parse-param p: &'a T
%%
S -> R:
    'INT' { From::from((*p).into() + $lexer.span_str($1.unwrap().span()).parse::<u64>().unwrap()) }
;
%%

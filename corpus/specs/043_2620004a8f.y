%start S
%parse-param p: u64
%%
S -> u64:
    // Previously %parse-param required a `Copy` bounds.
    // Since then we relaxed the bounds to require `Clone`.
    // This tests backwards compatibility of actions that
    // rely on the older copy bounds.
    'INT' {
        #[allow(clippy::redundant_closure_call)]
        (move |_| {})(p);
        check_copy(p);
        p + $lexer.span_str($1.unwrap().span()).parse::<u64>().unwrap()
    }
;
%%
fn check_copy<T: Copy>(_: T){}

%start S
%%
S -> Vec<A>:
    A { vec![$1] }
    | S A {
        $1.push($2);
        $1
    }
    ;
A -> A: 'a' { A } ;
%%
pub struct A;

%start Start 
%%
Start: 'ANY' | 'a' | 'NL';


%grmtools {
    yacckind: Grmtools,
    test_files: ["input*.txt"],
}
%start Expr
%avoid_insert "INT"
%expect-unused Unmatched "UNMATCHED"
%parse-generics 'ast
%parse-param arena: &'ast Bump
%%
Expr -> Result<Expr<'ast>, ()>:
      Expr '+' Term {
        Ok(Expr::Add{ span: $span, lhs: arena.alloc($1?), rhs: arena.alloc($3?) })
      }
    | Term { $1 }
    ;

Term -> Result<Expr<'ast>, ()>:
      Term '*' Factor {
        Ok(Expr::Mul{ span: $span, lhs: arena.alloc($1?), rhs: arena.alloc($3?) })
      }
    | Factor { $1 }
    ;

Factor -> Result<Expr<'ast>, ()>:
      '(' Expr ')' { $2 }
    | 'INT' { Ok(Expr::Number{ span: $span }) }
    ;

Unmatched -> ():
      "UNMATCHED" { }
    ;
%%

use cfgrammar::Span;
use bumpalo::Bump;

#[derive(Debug)]
pub enum Expr<'ast> {
    Add {
        span: Span,
        lhs: &'ast Expr<'ast>,
        rhs: &'ast Expr<'ast>,
    },
    Mul {
        span: Span,
        lhs: &'ast Expr<'ast>,
        rhs: &'ast Expr<'ast>,
    },
    Number {
        span: Span
    }
}

%grmtools{yacckind: Grmtools}
%start AStart
%token A B C
%%

AStart -> ()
 : A ':' BStart ';' {}
 ;

BStart -> () 
 : B ',' C {}
 | C ',' B {}
 ;

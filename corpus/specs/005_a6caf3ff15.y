%grmtools{yacckind: Grmtools}
%%
word_seq -> Vec<String>
    : "word" {vec![$lexer.span_str($1.as_ref().unwrap().span()).to_string()]
    }
    | word_seq "," "word" {
        let w: String = $lexer.span_str($3.as_ref().unwrap().span()).to_string();
        $1.push(w);
        $1
    }
    ;
%%

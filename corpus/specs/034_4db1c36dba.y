%grmtools{
    yacckind: Grmtools,
    recoverer: RecoveryKind::CPCTPlus,
    test_files: ["*.input_grmtools_section"]
}
%token MAGIC IDENT NUM STRING
%epp MAGIC "%grmtools"
%%
start -> Result<Header<Span>, Vec<HeaderError<Span>>>
: MAGIC '{' contents '}' { $3 }
;

contents -> Result<Header<Span>, Vec<HeaderError<Span>>>
: %empty { Ok(Header::new()) }
| val_seq comma_opt { $1 }
;

val_seq -> Result<Header<Span>, Vec<HeaderError<Span>>>
: valbind {
    let ((key, key_loc), val) = $1;
    let mut ret = Header::<Span>::new();
    match ret.entry(key) {
        Entry::Occupied(orig) => {
            let HeaderValue(orig_loc, _) : &HeaderValue<Span> = orig.get();
            // One difference between the manually written parser and this
            // is we don't try return multiple errors, or coalesce them.
            return Err(vec![HeaderError {
                kind: HeaderErrorKind::DuplicateEntry,
                locations: vec![*orig_loc, key_loc]
            }]);
        }
        Entry::Vacant(entry) => {
            entry.insert(HeaderValue(key_loc, val));
        }
    }
    Ok(ret)
}
| val_seq ',' valbind {
    let ((key, key_loc), val) = $3;
    let mut ret = $1?;
    match ret.entry(key) {
        Entry::Occupied(orig) => {
            let HeaderValue(orig_loc, _): &HeaderValue<Span> = orig.get();
            // One difference between the manually written parser and this
            // is we don't try return multiple errors, or coalesce them.
            return Err(vec![HeaderError {
                kind: HeaderErrorKind::DuplicateEntry,
                locations: vec![*orig_loc, key_loc]
            }]);
        }
        Entry::Vacant(entry) => {
            entry.insert(HeaderValue(key_loc, val));
        }
    }
    Ok(ret)
}
;

namespaced -> Namespaced<Span>
: IDENT {
    let ident_span = $1.as_ref().unwrap().span();
    let ident = $lexer.span_str(ident_span).to_string().to_lowercase();
    Namespaced{
        namespace: None,
        member: (ident, ident_span)
    }
}
| IDENT '::' IDENT {
    let namespace_span = $1.as_ref().unwrap().span();
    let namespace = $lexer.span_str(namespace_span).to_string().to_lowercase();

    let ident_span = $3.as_ref().unwrap().span();
    let ident = $lexer.span_str(ident_span).to_string().to_lowercase();
    Namespaced {
        namespace: Some((namespace, namespace_span)),
        member: (ident, ident_span)
    }
}
;

valbind -> ((String, Span), Value<Span>)
: IDENT ':' val {
    let key_span = $1.as_ref().unwrap().span();
    let key = $lexer.span_str(key_span).to_string().to_lowercase();
    ((key, key_span), Value::Setting($3))
}
| IDENT {
    let key_span = $1.as_ref().unwrap().span();
    let key = $lexer.span_str(key_span).to_string().to_lowercase();
    ((key, key_span), Value::Flag(true, key_span))
}
| '!' IDENT {
    let bang_span = $1.as_ref().unwrap().span();
    let key_span = $2.as_ref().unwrap().span();
    let key = $lexer.span_str(key_span).to_string().to_lowercase();
    ((key, key_span), Value::Flag(false, Span::new(bang_span.start(), key_span.end())))
}
;

val -> Setting<Span>
: namespaced { Setting::Unitary($1) }
| NUM  {
    let num_span = $1.as_ref().unwrap().span();
    let n = str::parse::<u64>($lexer.span_str(num_span));
    Setting::Num(n.expect("convertible"), num_span)
}
| STRING {
    let string_span = $1.as_ref().unwrap().span();
    // Trim the leading and trailing " characters.
    let string_span = Span::new(string_span.start() + 1, string_span.end() - 1);
    let s = $lexer.span_str(string_span).to_string();
    Setting::String(s, string_span)
}
| namespaced '(' namespaced ')' { Setting::Constructor{ctor: $1, arg: $3} }
| '[' array_seq ']' { Setting::Array($2, $1.as_ref().unwrap().span(), $3.as_ref().unwrap().span()) }
;

array_seq -> Vec<Setting<Span>>
: %empty { Vec::new() }
| val {
    vec![$1]
}
| array_seq ',' val {
    $1.push($3);
    $1
}
;
comma_opt -> ()
: %empty { }
| ',' { }
;
%%
#![allow(dead_code)]
#![allow(unused)]

use cfgrammar::{
    Span,
    header::{
        Value,
        Setting,
        HeaderError,
        HeaderErrorKind,
        Namespaced,
        Header,
        HeaderValue,
    },
    markmap::Entry,
};


%grmtools{yacckind: Original(NoAction)}
%start Start
%%
Start: 'ANY' | 'a' | 'NL';


%start A
%expect 1
%%
A: 'a' 'b' | B 'b';
B: 'a';

%grmtools{
    yacckind: Original(GenericParseTree),
    test_files: ["input*.txt"],
}
%start Expr
%avoid_insert "INT"
%%
Expr: Expr '+' Term
    | Term ;

Term: Term '*' Factor
    | Factor ;

Factor: '(' Expr ')'
      | 'INT';

%grmtools{
    yacckind: Original(GenericParseTree),
    test_files: ["input*.txt"],
}
%start Expr
%%
Expr: Expr Text | ;

Text: 'TEXT';

%start A
%epp a '"\"a"'
%%
A : 'a';

%grmtools {
    yacckind: Grmtools,
    test_files: ["input*.txt"],
}
%start Expr
%avoid_insert "INT"
%expect-unused Unmatched "UNMATCHED"
%%
Expr -> Result<Expr, ()>:
      Expr '+' Term {
        Ok(Expr::Add{ span: $span, lhs: Box::new($1?), rhs: Box::new($3?) })
      }
    | Term { $1 }
    ;

Term -> Result<Expr, ()>:
      Term '*' Factor {
        Ok(Expr::Mul{ span: $span, lhs: Box::new($1?), rhs: Box::new($3?) })
      }
    | Factor { $1 }
    ;

Factor -> Result<Expr, ()>:
      '(' Expr ')' { $2 }
    | 'INT' { Ok(Expr::Number{ span: $span }) }
    ;

Unmatched -> ():
      "UNMATCHED" { }
    ;
%%

use cfgrammar::Span;

#[derive(Debug)]
pub enum Expr {
    Add {
        span: Span,
        lhs: Box<Expr>,
        rhs: Box<Expr>,
    },
    Mul {
        span: Span,
        lhs: Box<Expr>,
        rhs: Box<Expr>,
    },
    Number {
        span: Span
    }
}

%grmtools {
    yacckind: Grmtools,
    test_files: ["input*.txt"],
}
%expect-unused Unmatched "UNMATCHED"
%token Incr Decr
%parse-param val: Rc<RefCell<i64>>
%%
Expr -> () : "INT" Ops {
    *val.borrow_mut() += parse_int($lexer.span_str($1.map_err(|_| "<evaluation aborted>").unwrap().span())).unwrap()
};
Ops -> (): 
    %empty {}
  | Ops Incr { *val.borrow_mut() += 1; }
  | Ops Decr { *val.borrow_mut() -= 1; }
  ;
Unmatched -> ():
    "UNMATCHED" { }
  ;
%%
use std::{ rc::Rc, cell::RefCell, error::Error };

fn parse_int(s: &str) -> Result<i64, Box<dyn Error>> {
    match s.parse::<i64>() {
        Ok(val) => Ok(val),
        Err(_) => {
            Err(Box::from(format!("{} cannot be represented as a i64", s)))
        }
    }
}

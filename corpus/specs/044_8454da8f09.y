%start Expr
%avoid_insert "INT"
%%
Expr -> Result<String, ()>:
    Num { $1 }
    ;
Num -> Result<String, ()>:
    "INT" { Ok(format!("$${}", $lexer.span_str($1.unwrap().span()))) }
    ;

%start A
%token b
%%
A : 'a';
B : 'b';

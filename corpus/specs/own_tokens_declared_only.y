%token A B
%%
S: ;

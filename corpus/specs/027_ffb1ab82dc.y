%grmtools {yacckind: Grmtools}
%start Expr
%avoid_insert "INT"
%expect-unused Unmatched "UNMATCHED"
%epp INT "Int"
%%
Expr -> Result<u64, Box<dyn Error>>:
    Expr '+' Term {
        $1?.checked_add($3?)
            .ok_or_else(|| Box::<dyn Error>::from("Overflow detected."))
    }
    | Term { $1 }
    ;

Term -> Result<u64, Box<dyn Error>>:
    Term '*' Factor {
        $1?.checked_mul($3?)
            .ok_or_else(|| Box::<dyn Error>::from("Overflow detected."))
    }
    | Factor { $1 }
    ;

Factor -> Result<u64, Box<dyn Error>>:
    '(' Expr ')' { $2 }
    | 'INT' {
        parse_int($lexer.span_str($1.map_err(|_| "<evaluation aborted>")?.span()))
    }
    ;
Unmatched -> (): "UNMATCHED" { };
%%
// Any imports here are in scope for all the grammar actions above.

use std::error::Error;

fn parse_int(s: &str) -> Result<u64, Box<dyn Error>> {
    match s.parse::<u64>() {
        Ok(val) => Ok(val),
        Err(_) => {
            Err(Box::from(format!("{} cannot be represented as a u64", s)))
        }
    }
}

%start Expr
%actiontype Result<u64, ()>
%avoid_insert 'INT'
%%
Expr: Expr '+' Term { Ok($1? + $3?) }
    | Term { $1 }
    ;

Term: Term '*' Factor { Ok($1? * $3?) }
    | Factor { $1 }
    ;

Factor: '(' Expr ')' { $2 }
      | 'INT' {
            let l = $1.map_err(|_| ())?;
            match $lexer.span_str(l.span()).parse::<u64>() {
                Ok(v) => Ok(v),
                Err(_) => {
                    let ((_, col), _) = $lexer.line_col(l.span());
                    eprintln!("Error at column {}: '{}' cannot be represented as a u64",
                              col,
                              $lexer.span_str(l.span()));
                    Err(())
                }
            }
        }
      ;


%grmtools{serialisation_format: SerialisationFormat::VariableSizedInteger}
%start Expr
%avoid_insert 'INT'
%%
Expr: Expr '+' Term
    | Term
    ;

Term: Term '*' Factor
    | Factor
    ;

Factor: '(' Expr ')'
      | 'INT'
      ;


%start S
%%
S: A | ;
A: S;

%start S
%parse-param p: &u64
%%
S -> u64:
    'INT' { *p + $lexer.span_str($1.unwrap().span()).parse::<u64>().unwrap() }
;
%%
